"""Environment stubs: symbolic random stream, math functions, array shim."""

from __future__ import annotations

import math
from fractions import Fraction
from random import Random

import z3

from . import core
from .core import SNum, SBool, Unmodelled, AND, OR


class SymRandom:
    """Stand-in for random.Random whose draws are SMT variables (the symbolic 'schedule').

    In concrete mode (replay) the same class hands back the recorded draws, in order.
    Names are draw!<k> in call order, so that the assignment of a path identifies the stream.
    """

    def __init__(self, s, prefix="draw", real_for_values=None):
        self.s = s
        self.n = 0
        self.prefix = prefix

    def _name(self):
        self.n += 1
        return "%s!%d" % (self.prefix, self.n)

    def __call__(self, seed=None):  # used as `Random(seed)` replacement: returns itself
        return self

    def seed(self, *a):
        pass

    def random(self):
        return self.s.real(self._name(), 0, 1, hi_strict=True)

    def uniform(self, a, b):
        u = self.random()
        return a + (b - a) * u

    def gauss(self, mu=0.0, sigma=1.0):
        g = self.s.real(self._name(), -4, 4)
        return mu + sigma * g

    def randrange(self, start, stop=None, step=1):
        if stop is None:
            start, stop = 0, start
        if step != 1:
            raise Unmodelled("randrange step")
        lo, hi = start, stop - 1
        if isinstance(lo, SNum) or isinstance(hi, SNum):
            x = self.s.int(self._name())
            self.s.assume(AND(x >= lo, x <= hi))
            return x
        if hi < lo:
            raise ValueError("empty range for randrange()")
        return self.s.int(self._name(), lo, hi)

    def randint(self, a, b):
        return self.randrange(a, b + 1)

    def choice(self, seq):
        if not len(seq):
            raise IndexError("Cannot choose from an empty sequence")
        i = self.s.int(self._name(), 0, len(seq) - 1)
        return seq[i]  # __index__ concretises

    def shuffle(self, x):
        # Fisher-Yates with symbolic picks (concretised on use)
        for i in reversed(range(1, len(x))):
            j = self.s.concrete(self.s.int(self._name(), 0, i))
            x[i], x[j] = x[j], x[i]

    def sample(self, population, k):
        pool = list(population)
        n = len(pool)
        if not 0 <= k <= n:
            raise ValueError("Sample larger than population or is negative")
        out = []
        for i in range(k):
            j = self.s.concrete(self.s.int(self._name(), 0, n - i - 1))
            out.append(pool[j])
            pool[j] = pool[n - i - 1]
        return out

    def choices(self, population, weights=None, k=1):
        out = []
        for _ in range(k):
            out.append(self.choice(population))
        return out

    def getrandbits(self, k):
        return self.s.int(self._name(), 0, (1 << k) - 1)


def sym_exp(x):
    """exp: concrete -> math.exp; symbolic -> fresh positive real with the order facts solvOR relies on."""
    if not isinstance(x, SNum):
        return math.exp(x)
    x = x._subst()
    if not x.co:
        return math.exp(x.value())
    c = core._ctx()
    c.fresh_n += 1
    e = z3.Real("exp!%d" % c.fresh_n)
    zx = x.z3()
    zx = z3.ToReal(zx) if zx.sort() == z3.IntSort() else zx
    c.add_fact(z3.And(e > 0, (zx < 0) == (e < 1), (zx == 0) == (e == 1), e >= 1 + zx))
    return SNum.atom(e, False)


def sym_log(x):
    if not isinstance(x, SNum):
        return math.log(x)
    x = x._subst()
    if not x.co:
        return math.log(x.value())
    if x <= 0:
        raise ValueError("math domain error")
    c = core._ctx()
    c.fresh_n += 1
    e = z3.Real("log!%d" % c.fresh_n)
    zx = x.z3()
    zx = z3.ToReal(zx) if zx.sort() == z3.IntSort() else zx
    c.add_fact(z3.And((zx < 1) == (e < 0), (zx == 1) == (e == 0), e <= zx - 1))
    return SNum.atom(e, False)


class SymArray(list):
    """array('d') stand-in: a list that accepts proxies. array(typecode, iterable)."""

    def __init__(self, typecode="d", it=()):
        super().__init__(it)
        self.typecode = typecode

    def __getitem__(self, i):
        r = list.__getitem__(self, i)
        if isinstance(i, slice):
            return SymArray(self.typecode, r)
        return r

    def __mul__(self, n):
        return SymArray(self.typecode, list.__mul__(self, n))

    __rmul__ = __mul__

    def __add__(self, o):
        return SymArray(self.typecode, list.__add__(self, o))

    def tolist(self):
        return list(self)


def sym_array(typecode="d", it=()):
    return SymArray(typecode, it)


class ScriptedRandom(Random):
    """Real random.Random subclass that replays a recorded list of draws (used for native replays)."""

    def __init__(self, draws):
        super().__init__(0)
        self._draws = list(draws)
        self._i = 0

    def _next(self):
        v = self._draws[self._i]
        self._i += 1
        return v

    def random(self):
        return float(Fraction(self._next()))


class Opaque:
    """A hashable node label with equality but NO ordering (like an Enum member): any code path that ends up comparing two labels
    with < (a heap tie that falls through to the label, sorted() over nodes) raises TypeError, which the engine reports."""

    __slots__ = ("i",)

    def __init__(self, i):
        self.i = i

    def __eq__(self, o):
        return type(o) is Opaque and o.i == self.i

    def __hash__(self):
        return hash(("opaque-label", self.i))

    def __repr__(self):
        return "<L%d>" % self.i


def namer(mode, prefix="n"):
    """Node-label scheme of a harness: falsy -> the ints themselves, 'opaque' -> unorderable hashable objects, anything else -> strings."""
    if mode == "opaque":
        return lambda u: Opaque(u)
    if mode:
        return lambda u: "%s%d" % (prefix, u)
    return lambda u: u

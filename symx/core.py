"""symx core: proxy-based symbolic execution of unmodified Python functions with z3.

A *harness* is a function ``harness(s, **params)`` where ``s`` is a :class:`Sym`.
It creates inputs through ``s.int/real/bool`` (SMT variables in symbolic mode, native
numbers bound from an assignment in concrete mode), calls the real solvOR function and
states obligations with ``s.check(cond, label)``.  ``Explorer`` runs the harness once
per path (depth-first, by re-execution): every ``bool()`` taken on a symbolic condition
is a fork decided by z3; every obligation is a z3 validity query under the path
condition.  ``sat`` answers are replayed in concrete mode (real floats, no stubs) and
only reported when the concrete run fails the same obligation.
"""

from __future__ import annotations

import math
import signal
import random as _random
import time
from fractions import Fraction

import z3

__all__ = [
    "SNum", "SBool", "Sym", "Explorer", "PathStats", "AND", "OR", "NOT", "IMPLIES", "ITE", "IFF",
    "Unmodelled", "CutPath", "INF", "to_z3", "is_sym", "sym_int", "sym_float", "ssum",
    "sabs", "smin", "smax", "sym_sqrt", "sym_sqrt_weak",
]

INF = float("inf")


class _Ctl(BaseException):
    """Base of control-flow exceptions (BaseException so `except Exception` in solvOR does not eat them)."""


class Infeasible(_Ctl):
    pass


class CutPath(_Ctl):
    """Harness decided to stop this path here (stated cut, outside the claim)."""


class PathTimeout(_Ctl):
    pass


class Inconclusive(_Ctl):
    pass


class Frontier(_Ctl):
    """Raised while collecting work-splitting prefixes: the path reached the split depth."""


class Unmodelled(_Ctl):
    """The code asked the proxy for something the engine does not model (harness error, never a violation)."""


ARITH_SOLVER = None  # z3 arith.solver override (2 = legacy simplex; the default loops on some mixed Int/Real LIA queries)
_CTX = None  # current PathCtx (one per process; workers are processes)


def _ctx():
    if _CTX is None:
        raise Unmodelled("symbolic value used outside a path context")
    return _CTX


def _frac(x):
    if isinstance(x, bool):
        return int(x)
    if isinstance(x, int):
        return x
    if isinstance(x, Fraction):
        return x.numerator if x.denominator == 1 else x
    if isinstance(x, float):
        if x != x or x in (INF, -INF):
            raise Unmodelled("non-finite float in affine form")
        f = Fraction(x)
        return f.numerator if f.denominator == 1 else f
    raise TypeError(type(x))


def _zconst(v, real):
    if real:
        if isinstance(v, Fraction):
            return z3.RealVal(str(v.numerator) + "/" + str(v.denominator))
        return z3.RealVal(v)
    return z3.IntVal(v)


class SBool:
    __slots__ = ("z",)

    def __init__(self, z):
        self.z = z

    def __bool__(self):
        return _ctx().branch(self.z)

    # non-forking combinators
    def __and__(self, o):
        return AND(self, o)

    __rand__ = __and__

    def __or__(self, o):
        return OR(self, o)

    __ror__ = __or__

    def __invert__(self):
        return NOT(self)

    def __eq__(self, o):
        if isinstance(o, SBool):
            return SBool(self.z == o.z)
        if isinstance(o, bool):
            return self if o else NOT(self)
        if isinstance(o, (int, float, SNum)):
            return self._num() == o
        return False

    def __ne__(self, o):
        r = self.__eq__(o)
        return NOT(r)

    def __hash__(self):
        return hash(bool(self))

    def _num(self):
        return SNum.atom(z3.If(self.z, z3.IntVal(1), z3.IntVal(0)), True)

    def __add__(self, o):
        return self._num() + o

    __radd__ = __add__

    def __int__(self):
        return int(bool(self))

    def __index__(self):
        return int(bool(self))

    def __repr__(self):
        return "SBool(%s)" % (self.z,)


def _zb(x):
    if isinstance(x, SBool):
        return x.z
    if isinstance(x, SNum):
        r = x != 0
        return r.z if isinstance(r, SBool) else z3.BoolVal(bool(r))
    if type(x) is bool or type(x) is int:
        return z3.BoolVal(bool(x))
    if isinstance(x, z3.BoolRef):
        return x
    raise TypeError("not a boolean: %r" % (x,))


def _is_py_bool(x):
    return type(x) is bool or type(x) is int


def AND(*xs):
    if len(xs) == 1 and isinstance(xs[0], (list, tuple)):
        xs = tuple(xs[0])
    zs = []
    for x in xs:
        if _is_py_bool(x):
            if not x:
                return False
            continue
        zs.append(_zb(x))
    if not zs:
        return True
    return SBool(z3.And(*zs)) if len(zs) > 1 else SBool(zs[0])


def OR(*xs):
    if len(xs) == 1 and isinstance(xs[0], (list, tuple)):
        xs = tuple(xs[0])
    zs = []
    for x in xs:
        if _is_py_bool(x):
            if x:
                return True
            continue
        zs.append(_zb(x))
    if not zs:
        return False
    return SBool(z3.Or(*zs)) if len(zs) > 1 else SBool(zs[0])


def NOT(x):
    if _is_py_bool(x):
        return not x
    return SBool(z3.Not(_zb(x)))


def IMPLIES(a, b):
    return OR(NOT(a), b)


def IFF(a, b):
    if _is_py_bool(a):
        return b if a else NOT(b)
    if _is_py_bool(b):
        return a if b else NOT(a)
    return SBool(_zb(a) == _zb(b))


def ITE(c, a, b):
    """Non-forking if-then-else on numbers."""
    if _is_py_bool(c):
        return a if c else b
    za, zb = to_z3(a), to_z3(b)
    isint = za.sort() == z3.IntSort() and zb.sort() == z3.IntSort()
    if not isint:
        za = z3.ToReal(za) if za.sort() == z3.IntSort() else za
        zb = z3.ToReal(zb) if zb.sort() == z3.IntSort() else zb
    return SNum.atom(z3.If(_zb(c), za, zb), isint)


def is_sym(x):
    return isinstance(x, (SNum, SBool))


def to_z3(x):
    if isinstance(x, SNum):
        return x.z3()
    if isinstance(x, SBool):
        return x.z
    if isinstance(x, bool):
        return z3.BoolVal(x)
    if isinstance(x, int):
        return z3.IntVal(x)
    if isinstance(x, (float, Fraction)):
        return _zconst(_frac(x), True)
    if isinstance(x, z3.ExprRef):
        return x
    raise TypeError(type(x))


class SNum:
    """Affine form  k + sum co[a]*atom_a  over z3 atoms; isint tracks Python int vs float."""

    __slots__ = ("co", "k", "isint", "_z")

    def __init__(self, co, k, isint):
        self.co = co
        self.k = k
        self.isint = isint
        self._z = None

    # ------------------------------------------------------------------ construction
    @staticmethod
    def atom(z, isint):
        c = _ctx()
        i = z.get_id()
        c.atoms[i] = (z, isint)
        return SNum({i: 1}, 0, isint)

    @staticmethod
    def const(v, isint=None):
        if isint is None:
            isint = isinstance(v, int)
        return SNum({}, _frac(v), isint)

    @property
    def __class__(self):  # isinstance(x, int) / isinstance(x, (int, float)) in solvOR's validators
        return int if self.isint else float

    def is_const(self):
        return not self.co

    def value(self):
        """Native value of a constant form."""
        if self.isint:
            return int(self.k)
        return float(self.k) if not isinstance(self.k, int) else float(self.k)

    def z3(self):
        if self._z is not None:
            return self._z
        c = _ctx()
        real = not self.isint
        if not real:
            for a, w in self.co.items():
                if not isinstance(w, int) or not c.atoms[a][1]:
                    real = True
                    break
            if not isinstance(self.k, int):
                real = True
        terms = []
        for a, w in self.co.items():
            z, ai = c.atoms[a]
            if real and ai:
                z = z3.ToReal(z)
            if w == 1:
                terms.append(z)
            else:
                terms.append(_zconst(w, real) * z)
        if self.k != 0 or not terms:
            terms.append(_zconst(self.k, real))
        r = terms[0] if len(terms) == 1 else z3.Sum(terms)
        self._z = r
        return r

    # ------------------------------------------------------------------ helpers
    @staticmethod
    def _lift(o):
        if isinstance(o, SNum):
            return o
        if isinstance(o, SBool):
            return o._num()
        if isinstance(o, bool):
            return SNum({}, int(o), True)
        if isinstance(o, int):
            return SNum({}, o, True)
        if isinstance(o, float):
            if o != o or o in (INF, -INF):
                return None
            return SNum({}, _frac(o), False)
        if isinstance(o, Fraction):
            return SNum({}, _frac(o), False)
        return NotImplemented

    def _subst(self):
        known = _ctx().known
        if not known or not self.co:
            return self
        hit = False
        for a in self.co:
            if a in known:
                hit = True
                break
        if not hit:
            return self
        co = {}
        k = self.k
        for a, w in self.co.items():
            if a in known:
                k = k + w * known[a]
            else:
                co[a] = w
        return SNum(co, _frac(k), self.isint)

    # ------------------------------------------------------------------ arithmetic
    def __add__(self, o):
        b = SNum._lift(o)
        if b is NotImplemented:
            return NotImplemented
        if b is None:  # +-inf / nan
            return o
        co = dict(self.co)
        for a, w in b.co.items():
            v = co.get(a, 0) + w
            if v == 0:
                co.pop(a, None)
            else:
                co[a] = _frac(v)
        return SNum(co, _frac(self.k + b.k), self.isint and b.isint)

    __radd__ = __add__

    def __neg__(self):
        return SNum({a: -w for a, w in self.co.items()}, -self.k, self.isint)

    def __pos__(self):
        return self

    def __sub__(self, o):
        b = SNum._lift(o)
        if b is NotImplemented:
            return NotImplemented
        if b is None:
            return -o
        return self + (-b)

    def __rsub__(self, o):
        b = SNum._lift(o)
        if b is NotImplemented:
            return NotImplemented
        if b is None:
            return o
        return b + (-self)

    def _scale(self, f, isint):
        if f == 0:
            return SNum({}, 0, isint)
        return SNum({a: _frac(w * f) for a, w in self.co.items()}, _frac(self.k * f), isint)

    def __mul__(self, o):
        b = SNum._lift(o)
        if b is NotImplemented:
            return NotImplemented
        if b is None:
            # x * inf: sign dependent
            if self > 0:
                return o
            if self < 0:
                return -o
            return float("nan")
        isint = self.isint and b.isint
        if not b.co:
            return self._scale(b.k, isint)
        if not self.co:
            return b._scale(self.k, isint)
        a1 = self._subst()
        b1 = b._subst()
        if not b1.co:
            return a1._scale(b1.k, isint)
        if not a1.co:
            return b1._scale(a1.k, isint)
        za, zb = a1.z3(), b1.z3()
        if za.sort() != zb.sort():
            za = z3.ToReal(za) if za.sort() == z3.IntSort() else za
            zb = z3.ToReal(zb) if zb.sort() == z3.IntSort() else zb
        _ctx().nonlinear += 1
        r = SNum.atom(za * zb, za.sort() == z3.IntSort())
        r.isint = isint
        if za.get_id() == zb.get_id():
            (aid, _w), = r.co.items()
            _ctx().squares[aid] = a1  # remembered so that a weak sqrt can bound |a1| linearly
        return r

    __rmul__ = __mul__

    def __truediv__(self, o):
        b = SNum._lift(o)
        if b is NotImplemented:
            return NotImplemented
        if b is None:
            return 0.0
        if not b.co:
            if b.k == 0:
                raise ZeroDivisionError("division by zero")
            return self._scale(Fraction(1) / b.k, False)
        b1 = b._subst()
        if not b1.co:
            return self / b1.value()
        if b1 == 0:
            raise ZeroDivisionError("division by zero")
        za, zb = self.z3(), b1.z3()
        za = z3.ToReal(za) if za.sort() == z3.IntSort() else za
        zb = z3.ToReal(zb) if zb.sort() == z3.IntSort() else zb
        _ctx().nonlinear += 1
        return SNum.atom(za / zb, False)

    def __rtruediv__(self, o):
        b = SNum._lift(o)
        if b is NotImplemented:
            return NotImplemented
        if b is None:
            if self > 0:
                return o
            if self < 0:
                return -o
            raise ZeroDivisionError("division by zero")
        return b / self

    def __floordiv__(self, o):
        b = SNum._lift(o)
        if b is NotImplemented:
            return NotImplemented
        if b is None:
            raise Unmodelled("// inf")
        b = b._subst()
        isint = self.isint and b.isint
        if not b.co:
            d = b.k
            if d == 0:
                raise ZeroDivisionError("integer division or modulo by zero")
            a = self._subst()
            if not a.co:
                q = a.k // d
                return SNum({}, _frac(q), isint)
            q = (a._scale(Fraction(1) / d, False)).__floor__()
            if not isint:
                q = SNum(q.co, q.k, False)
            return q
        # symbolic divisor: fork on sign, then floor of real quotient
        if b == 0:
            raise ZeroDivisionError("integer division or modulo by zero")
        q = (self / b).__floor__()
        if not isint:
            q = SNum(q.co, q.k, False)
        return q

    def __rfloordiv__(self, o):
        b = SNum._lift(o)
        if b is NotImplemented or b is None:
            return NotImplemented
        return b // self

    def __mod__(self, o):
        q = self // o
        return self - q * o

    def __rmod__(self, o):
        b = SNum._lift(o)
        if b is NotImplemented or b is None:
            return NotImplemented
        return b % self

    def __divmod__(self, o):
        q = self // o
        return q, self - q * o

    def __pow__(self, o):
        if isinstance(o, SNum):
            o = o._subst()
            if o.co:
                raise Unmodelled("symbolic exponent")
            o = o.value()
        if isinstance(o, float) and o == int(o):
            r = self ** int(o)
            return SNum(r.co, r.k, False) if isinstance(r, SNum) else float(r)
        if isinstance(o, int) and o >= 0:
            r = SNum({}, 1, True)
            for _ in range(o):
                r = r * self
            return r
        if isinstance(o, int) and o < 0:
            return 1 / (self ** (-o))
        if o == 0.5:
            return sym_sqrt(self)
        raise Unmodelled("pow %r" % (o,))

    def __rpow__(self, o):
        e = self._subst()
        if not e.co:
            return o ** e.value()
        raise Unmodelled("symbolic exponent")

    def __abs__(self):
        if self < 0:
            return -self
        return self

    # ------------------------------------------------------------------ bit operations: concretise (structural use)
    def _bits(self):
        if not self.isint:
            raise TypeError("unsupported operand type(s) for bit operation: 'float'")
        return int(_ctx().concretize(self))

    def __or__(self, o):
        return self._bits() | (o._bits() if isinstance(o, SNum) else o)

    __ror__ = __or__

    def __and__(self, o):
        return self._bits() & (o._bits() if isinstance(o, SNum) else o)

    __rand__ = __and__

    def __xor__(self, o):
        return self._bits() ^ (o._bits() if isinstance(o, SNum) else o)

    __rxor__ = __xor__

    def __lshift__(self, o):
        return self._bits() << (o._bits() if isinstance(o, SNum) else o)

    def __rlshift__(self, o):
        return o << self._bits()

    def __rshift__(self, o):
        return self._bits() >> (o._bits() if isinstance(o, SNum) else o)

    def __rrshift__(self, o):
        return o >> self._bits()

    def __invert__(self):
        return -self - 1

    # ------------------------------------------------------------------ rounding (return symbolic ints)
    def _toint_floor(self):
        a = self._subst()
        if not a.co:
            return SNum({}, math.floor(a.k), True)
        if a.isint or _all_int(a):
            return SNum(a.co, a.k, True)
        return SNum.atom(z3.ToInt(a.z3() if a.z3().sort() == z3.RealSort() else z3.ToReal(a.z3())), True)

    def __floor__(self):
        return self._toint_floor()

    def __ceil__(self):
        return -((-self)._toint_floor())

    def __trunc__(self):
        a = self._subst()
        if not a.co:
            return SNum({}, math.trunc(a.k), True)
        if a.isint or _all_int(a):
            return SNum(a.co, a.k, True)
        if a >= 0:
            return a._toint_floor()
        return a.__ceil__()

    def __round__(self, nd=None):
        a = self._subst()
        if not a.co:
            v = round(Fraction(a.k), nd) if nd is not None else round(Fraction(a.k))
            return SNum({}, _frac(v), nd is None or a.isint)
        if a.isint:
            return a
        if nd is not None:
            sc = 10 ** nd
            r = (a * sc).__round__()
            return SNum(r.co, r.k, False) / sc
        # banker's rounding: floor(x+1/2), minus 1 when x+1/2 is an even... (tie and floor odd)
        f = (a + Fraction(1, 2))._toint_floor()
        tie = (f == a + Fraction(1, 2))  # x is exactly k+1/2
        if isinstance(tie, SBool):
            zf = f.z3()
            odd = SBool(zf % 2 == 1)
            return ITE(AND(tie, odd), f - 1, f)
        if tie and int(f.k) % 2 == 1:
            return f - 1
        return f

    # ------------------------------------------------------------------ comparisons (non-forking: return bool or SBool)
    def _cmp(self, o, op):
        b = SNum._lift(o)
        if b is NotImplemented:
            return NotImplemented
        if b is None:  # comparison against +-inf / nan
            if o != o:
                return op == "ne"
            pos = o > 0
            return {"lt": pos, "le": pos, "gt": not pos, "ge": not pos, "eq": False, "ne": True}[op]
        d = (self - b)._subst()
        if not d.co:
            k = d.k
            return {"lt": k < 0, "le": k <= 0, "gt": k > 0, "ge": k >= 0, "eq": k == 0, "ne": k != 0}[op]
        # normalise: integer-valued forms get tightened by z3 itself
        z = d.z3()
        zero = z3.IntVal(0) if z.sort() == z3.IntSort() else z3.RealVal(0)
        e = {"lt": z < zero, "le": z <= zero, "gt": z > zero, "ge": z >= zero, "eq": z == zero, "ne": z != zero}[op]
        return SBool(e)

    def __lt__(self, o):
        return self._cmp(o, "lt")

    def __le__(self, o):
        return self._cmp(o, "le")

    def __gt__(self, o):
        return self._cmp(o, "gt")

    def __ge__(self, o):
        return self._cmp(o, "ge")

    def __eq__(self, o):
        r = self._cmp(o, "eq")
        return False if r is NotImplemented else r

    def __ne__(self, o):
        r = self._cmp(o, "ne")
        return True if r is NotImplemented else r

    # ------------------------------------------------------------------ concretisation points
    def __bool__(self):
        r = self != 0
        return bool(r)

    def __index__(self):
        if not self.isint:
            raise TypeError("'float' object cannot be interpreted as an integer")
        return _ctx().concretize(self)

    def __hash__(self):
        a = self._subst()
        if a.co and not (a.isint or _all_int(a)):
            raise Unmodelled("hash of a symbolic real")
        v = _ctx().concretize(a)
        return hash(v)

    def __int__(self):
        t = self.__trunc__()
        return int(_ctx().concretize(t))

    def __float__(self):
        a = self._subst()
        if not a.co:
            return float(a.k)
        raise Unmodelled("float() of a symbolic value reached C code (shadow it in the module namespace)")

    def __repr__(self):
        return "<sym>"

    __str__ = __repr__

    def __format__(self, spec):
        return "<sym>"

    def is_integer(self):
        if self.isint:
            return True
        return bool(self == self.__floor__())


def _all_int(a):
    c = _ctx()
    if not isinstance(a.k, int):
        return False
    for at, w in a.co.items():
        if not isinstance(w, int) or not c.atoms[at][1]:
            return False
    return True


# ---------------------------------------------------------------------- builtins shadows
class _SymIntMeta(type):
    def __instancecheck__(cls, x):
        if isinstance(x, SNum):
            return x.isint
        return type(x) is int or type(x) is bool or isinstance(type(x), type) and issubclass(type(x), int)

    def __call__(cls, x=0, *a):
        if isinstance(x, SNum):
            return x.__trunc__()
        if isinstance(x, SBool):
            return x._num()
        return int(x, *a)


class sym_int(metaclass=_SymIntMeta):
    """Shadow for the builtin ``int`` in a module namespace: isinstance works, calls truncate symbolically."""


class _SymFloatMeta(type):
    def __instancecheck__(cls, x):
        if isinstance(x, SNum):
            return not x.isint
        return type(x) is float

    def __call__(cls, x=0.0):
        if isinstance(x, SNum):
            return SNum(x.co, x.k, False)
        if isinstance(x, SBool):
            n = x._num()
            return SNum(n.co, n.k, False)
        return float(x)


class sym_float(metaclass=_SymFloatMeta):
    """Shadow for the builtin ``float``."""


def ssum(xs, start=0):
    r = start
    for x in xs:
        r = r + x
    return r


def sabs(x):
    """Non-forking abs."""
    if isinstance(x, SNum):
        x = x._subst()
        if not x.co:
            return abs(x.value())
        return ITE(x < 0, -x, x)
    return abs(x)


def smin(a, b):
    c = a <= b
    if _is_py_bool(c):
        return a if c else b
    return ITE(c, a, b)


def smax(a, b):
    c = a >= b
    if _is_py_bool(c):
        return a if c else b
    return ITE(c, a, b)


def sym_sqrt(x):
    """sqrt as a fresh non-negative real s with s*s == x (forks on x<0 -> ValueError like math.sqrt)."""
    if not isinstance(x, SNum):
        return math.sqrt(x)
    x = x._subst()
    if not x.co:
        return math.sqrt(x.value())
    if x < 0:
        raise ValueError("math domain error")
    c = _ctx()
    c.fresh_n += 1
    s = z3.Real("sqrt!%d" % c.fresh_n)
    zx = x.z3()
    zx = z3.ToReal(zx) if zx.sort() == z3.IntSort() else zx
    c.add_fact(z3.And(s >= 0, s * s == zx))
    c.nonlinear += 1
    return SNum.atom(s, False)


def sym_sqrt_weak(x):
    """Sound linear over-approximation of sqrt(sum of squares): a fresh t >= |r_i| for every square r_i*r_i in the sum.
    (t < eps then implies every |r_i| < eps; nothing else is assumed, so both branches over-approximate the real states.)"""
    if not isinstance(x, SNum):
        return math.sqrt(x)
    x = x._subst()
    if not x.co:
        return math.sqrt(x.value())
    c = _ctx()
    parts = []
    for a, w in x.co.items():
        if a not in c.squares or w <= 0:
            return sym_sqrt(x)
        parts.append((c.squares[a], w))
    c.fresh_n += 1
    t = z3.Real("norm!%d" % c.fresh_n)
    facts = [t >= 0]
    for r, w in parts:
        zr = r.z3()
        zr = z3.ToReal(zr) if zr.sort() == z3.IntSort() else zr
        if w == 1:
            facts += [t >= zr, t >= -zr]
    c.add_fact(z3.And(*facts))
    return SNum.atom(t, False)


# ---------------------------------------------------------------------- path context
class Decision:
    __slots__ = ("taken", "alt", "aux", "alt_model")

    def __init__(self, taken, alt, aux=None, alt_model=None):
        self.taken = taken
        self.alt = alt
        self.aux = aux
        self.alt_model = alt_model


class PathCtx:
    def __init__(self, prefix, timeout_ms, start_model=None, max_decisions=100000):
        self.solver = z3.Solver()
        self.solver.set("timeout", timeout_ms)
        if ARITH_SOLVER is not None:
            self.solver.set("arith.solver", ARITH_SOLVER)
        self.prefix = prefix
        self.pos = 0
        self.decisions = []
        self.model = None
        self.start_model = start_model  # model valid right after the prefix has been replayed
        self.atoms = {}
        self.known = {}
        self.nq = 0
        self.solver_time = 0.0
        self.nonlinear = 0
        self.fresh_n = 0
        self.inputs = {}  # name -> (z3 const, kind)
        self.input_order = []
        self.unknowns = 0
        self.max_decisions = max_decisions
        self.pc_size = 0
        self.deadline = None
        self.frontier_depth = None
        self.decided = {}  # z3 ast id -> (ast kept alive, truth value on this path)
        self.conc = {}  # z3 ast id -> (ast, concretised value on this path)
        self.squares = {}  # atom id of x*x -> x

    # -- solver helpers
    def _check(self, *extra):
        t = time.perf_counter()
        self.nq += 1
        r = self.solver.check(*extra)
        self.solver_time += time.perf_counter() - t
        return r

    def add_fact(self, z):
        self.solver.add(z)
        # facts about fresh symbols keep the current model valid only if we extend it: drop it
        self.model = None

    def get_model(self):
        if self.model is None:
            if self.pos >= len(self.prefix) and self.start_model is not None and len(self.decisions) == len(self.prefix):
                self.model = self.start_model
                self.start_model = None
                return self.model
            r = self._check()
            if r == z3.sat:
                self.model = self.solver.model()
            elif r == z3.unsat:
                raise Infeasible()
            else:
                self.unknowns += 1
                raise Inconclusive("model query unknown")
        return self.model

    def _tick(self):
        if self.deadline is not None and time.monotonic() > self.deadline:
            raise PathTimeout()

    def branch(self, z, use_cache=True):
        """Decide a symbolic condition; returns the Python bool taken on this path."""
        zid = z.get_id()
        hit = self.decided.get(zid) if use_cache else None
        if hit is not None:
            return hit[1]
        self._tick()
        if self.pos < len(self.prefix):
            d = self.prefix[self.pos]
            self.pos += 1
            self.solver.add(z if d.taken else z3.Not(z))
            self.decisions.append(d)
            self.decided[zid] = (z, d.taken)
            if self.pos == len(self.prefix):
                self.model = None
            return d.taken
        if len(self.decisions) >= self.max_decisions:
            raise PathTimeout()
        if self.frontier_depth is not None and len(self.decisions) >= self.frontier_depth:
            raise Frontier()
        m = self.get_model()
        v = z3.is_true(m.eval(z, model_completion=True))
        nz = z3.Not(z)
        self.solver.push()
        self.solver.add(nz if v else z)
        r = self._check()
        alt_model = self.solver.model() if r == z3.sat else None
        self.solver.pop()
        if r == z3.unknown:
            self.unknowns += 1
        self.solver.add(z if v else nz)
        self.decisions.append(Decision(v, r == z3.sat, None, alt_model))
        self.decided[zid] = (z, v)
        return v

    def assume(self, z):
        if isinstance(z, bool):
            if not z:
                raise Infeasible()
            return
        self.solver.add(z)
        if self.pos < len(self.prefix):
            return
        if self.start_model is not None and len(self.decisions) == len(self.prefix):
            m = self.start_model
            if z3.is_true(m.eval(z, model_completion=True)):
                return
            self.start_model = None
            self.model = None
        m = self.model
        if m is not None and z3.is_true(m.eval(z, model_completion=True)):
            return
        self.model = None
        r = self._check()
        if r == z3.sat:
            self.model = self.solver.model()
        elif r == z3.unsat:
            raise Infeasible()
        else:
            self.unknowns += 1
            raise Inconclusive("assume unknown")

    def concretize(self, x):
        x = x._subst()
        if not x.co:
            if not isinstance(x.k, int):
                if x.isint:
                    raise Unmodelled("fractional int")
                return float(x.k)
            return int(x.k) if x.isint else float(x.k)
        z = x.z3()
        hit = self.conc.get(z.get_id())
        if hit is not None:
            return hit[1]
        while True:
            if self.pos < len(self.prefix):
                v = self.prefix[self.pos].aux
            else:
                m = self.get_model()
                mv = m.eval(z, model_completion=True)
                v = _val(mv)
            zv = _zconst(_frac(v), z.sort() == z3.RealSort())
            before = len(self.decisions)
            t = self.branch(z == zv, use_cache=False)
            self.decisions[before].aux = v
            if t:
                self.conc[z.get_id()] = (z, (float(v) if isinstance(v, Fraction) else (v if x.isint else float(v))))
                if len(x.co) == 1 and x.k == 0:
                    (a, w), = x.co.items()
                    if w == 1:
                        self.known[a] = v
                if isinstance(v, Fraction):
                    return float(v)
                return v if x.isint else float(v)


def _val(mv):
    """z3 model value -> int | Fraction."""
    if z3.is_int_value(mv):
        return mv.as_long()
    if z3.is_rational_value(mv):
        f = Fraction(mv.numerator_as_long(), mv.denominator_as_long())
        return f.numerator if f.denominator == 1 else f
    if z3.is_algebraic_value(mv):
        a = mv.approx(30)
        return Fraction(a.numerator_as_long(), a.denominator_as_long())
    if z3.is_true(mv):
        return True
    if z3.is_false(mv):
        return False
    raise Unmodelled("model value %r" % (mv,))


# ---------------------------------------------------------------------- harness facade
class CheckFailed(_Ctl):
    def __init__(self, label, detail=None):
        self.label = label
        self.detail = detail


class Sym:
    """Facade handed to harnesses. symbolic=True: inputs are SMT variables; False: bound from `assignment`."""

    def __init__(self, ctx, assignment=None):
        self.ctx = ctx
        self.symbolic = assignment is None
        self.assignment = assignment
        self.obligations = []  # (label, verdict, detail)
        self.observed = {}
        self.cex = []  # (label, model assignment)
        self.notes = {}
        self._stub_undo = []
        self.draws = []
        self.goals = set()
        self.explorer = None

    # ---- inputs
    def _reg(self, name, z, kind):
        if name not in self.ctx.inputs:
            self.ctx.inputs[name] = (z, kind)
            self.ctx.input_order.append(name)

    def int(self, name, lo=None, hi=None):
        if not self.symbolic:
            v = self.assignment.get(name)
            if v is None:
                v = lo if lo is not None else (hi if hi is not None else 0)
                self.assignment[name] = v
            v = int(v)
            if (lo is not None and v < lo) or (hi is not None and v > hi):
                raise Infeasible()
            return v
        z = z3.Int(name)
        self._reg(name, z, "int")
        x = SNum.atom(z, True)
        if lo is not None and hi is not None and lo == hi:
            self.ctx.assume(z == lo)
            return lo
        if lo is not None:
            self.ctx.assume(z >= lo)
        if hi is not None:
            self.ctx.assume(z <= hi)
        return x

    def real(self, name, lo=None, hi=None, lo_strict=False, hi_strict=False):
        if not self.symbolic:
            v = self.assignment.get(name)
            if v is None:
                v = lo if lo is not None else (hi if hi is not None else 0)
                self.assignment[name] = v
            f = float(Fraction(v)) if not isinstance(v, float) else v
            if lo is not None and (f < lo or (lo_strict and f == lo)):
                raise Infeasible()
            if hi is not None and (f > hi or (hi_strict and f == hi)):
                raise Infeasible()
            return f
        z = z3.Real(name)
        self._reg(name, z, "real")
        x = SNum.atom(z, False)
        if lo is not None:
            self.ctx.assume(z > _zconst(_frac(lo), True) if lo_strict else z >= _zconst(_frac(lo), True))
        if hi is not None:
            self.ctx.assume(z < _zconst(_frac(hi), True) if hi_strict else z <= _zconst(_frac(hi), True))
        return x

    def bool(self, name):
        if not self.symbolic:
            v = self.assignment.get(name)
            if v is None:
                v = False
                self.assignment[name] = v
            return bool(v)
        z = z3.Bool(name)
        self._reg(name, z, "bool")
        return SBool(z)

    def choice(self, name, n):
        """Structural selector in range(n), concretised immediately (solver-enumerated)."""
        x = self.int(name, 0, n - 1)
        if isinstance(x, SNum):
            return self.ctx.concretize(x)
        return x

    def concrete(self, x):
        """Fork on the value of x now (structural input the code is about to index with anyway)."""
        if isinstance(x, SNum):
            return self.ctx.concretize(x)
        if isinstance(x, SBool):
            return bool(x)
        return x

    def fresh_real(self, name):
        """Existential variable for a negated obligation (not an input; not replayed)."""
        if self.ctx is None:
            raise Unmodelled("no ctx")
        z = z3.Real("ex!" + name)
        return SNum.atom(z, False)

    def fresh_int(self, name):
        z = z3.Int("ex!" + name)
        return SNum.atom(z, True)

    def assume(self, cond):
        if _is_py_bool(cond):
            if not cond:
                raise Infeasible()
            return
        self.ctx.assume(_zb(cond))

    def cut(self, why=""):
        raise CutPath(why)

    def goal(self, name):
        self.goals.add(name)

    def observe(self, name, value):
        self.observed[name] = value

    # ---- stubs
    def stub(self, module, **names):
        """Assign into a module namespace (symbolic mode only); restored at path end."""
        if not self.symbolic:
            return
        for k, v in names.items():
            had = k in module.__dict__
            old = module.__dict__.get(k)
            self._stub_undo.append((module, k, had, old))
            setattr(module, k, v)

    def patch(self, module, **names):
        """Assign into a module namespace in both modes (e.g. scripted callbacks); restored at path end."""
        for k, v in names.items():
            had = k in module.__dict__
            old = module.__dict__.get(k)
            self._stub_undo.append((module, k, had, old))
            setattr(module, k, v)

    def _restore(self):
        for module, k, had, old in reversed(self._stub_undo):
            if had:
                setattr(module, k, old)
            else:
                try:
                    delattr(module, k)
                except AttributeError:
                    pass
        self._stub_undo = []

    # ---- obligations
    def check(self, cond, label, detail=None):
        """Obligation: cond must be valid under the path condition."""
        if _is_py_bool(cond):
            if cond:
                self.obligations.append((label, "proved", None))
            else:
                self.obligations.append((label, "refuted", detail))
                self.cex.append((label, self._model_assignment(None), detail))
            return bool(cond)
        z = _zb(cond)
        c = self.ctx
        c.solver.push()
        c.solver.add(z3.Not(z))
        r = c._check()
        m = c.solver.model() if r == z3.sat else None
        if r == z3.sat and self.symbolic:
            # prefer small integral witnesses (reproduce exactly with real floats)
            m = self._nice_model(m)
        c.solver.pop()
        if r == z3.unsat:
            self.obligations.append((label, "proved", None))
            return True
        if r == z3.sat:
            self.obligations.append((label, "refuted", detail))
            self.cex.append((label, self._model_assignment(m), detail))
            return False
        c.unknowns += 1
        self.obligations.append((label, "unknown", detail))
        return None

    def _nice_model(self, m):
        c = self.ctx
        reals = [z for (z, kind) in c.inputs.values() if kind == "real"]
        if not reals:
            return m
        c.solver.push()
        for z in reals:
            c.solver.add(z3.ToReal(z3.ToInt(z)) == z, z <= 64, z >= -64)
        r = c._check()
        if r == z3.sat:
            m = c.solver.model()
            c.solver.pop()
            return m
        c.solver.pop()
        c.solver.push()
        for z in reals:
            c.solver.add(z3.ToReal(z3.ToInt(z * 8)) == z * 8)
        r = c._check()
        if r == z3.sat:
            m = c.solver.model()
        c.solver.pop()
        return m

    def _model_assignment(self, m):
        if not self.symbolic:
            return dict(self.assignment)
        c = self.ctx
        if m is None:
            try:
                m = c.get_model()
            except _Ctl:
                return {}
        out = {}
        for name in c.input_order:
            z, kind = c.inputs[name]
            v = _val(m.eval(z, model_completion=True))
            out[name] = v
        return out

    def check_exists(self, fresh, cond, label, detail=None):
        """Obligation  pc => EXISTS fresh. cond  (fresh: SNums made by fresh_real/fresh_int); decided by z3 with a quantifier."""
        if _is_py_bool(cond):
            return self.check(cond, label, detail)
        zs = [to_z3(v) for v in fresh]
        return self.check(SBool(z3.Exists(zs, _zb(cond))), label, detail)

    def fail(self, label, detail=None):
        """Unconditional failure on this path (e.g. unexpected exception)."""
        self.obligations.append((label, "refuted", detail))
        self.cex.append((label, self._model_assignment(None), detail))


# ---------------------------------------------------------------------- explorer
class PathStats:
    def __init__(self):
        self.paths = 0
        self.pruned = 0
        self.cut = 0
        self.decisions = 0
        self.queries = 0
        self.solver_time = 0.0
        self.obligations = 0
        self.proved = 0
        self.unknown = 0
        self.inconclusive_paths = 0
        self.timeouts = []
        self.cex = []  # dicts
        self.validated = 0
        self.validation_mismatch = []
        self.unmodelled = []
        self.samples = []
        self.goals = {}
        self.exhaustive = True
        self.nonlinear = 0
        self.wall = 0.0
        self.unreproduced = []
        self.boundary_paths = 0
        self.extra_witnesses = 0

    def merge(self, o):
        for k in ("paths", "pruned", "cut", "decisions", "queries", "obligations", "proved", "unknown",
                  "inconclusive_paths", "validated", "nonlinear", "boundary_paths", "extra_witnesses"):
            setattr(self, k, getattr(self, k) + getattr(o, k))
        self.solver_time += o.solver_time
        self.wall += o.wall
        self.timeouts += o.timeouts
        self.cex += o.cex
        self.validation_mismatch += o.validation_mismatch
        self.unmodelled += o.unmodelled
        self.unreproduced += o.unreproduced
        if len(self.samples) < 6:
            self.samples += o.samples[: 6 - len(self.samples)]
        for g, n in o.goals.items():
            self.goals[g] = self.goals.get(g, 0) + n
        self.exhaustive = self.exhaustive and o.exhaustive


def jsonable(v):
    if isinstance(v, SNum):
        return "<sym>" if v.co else v.value()
    if isinstance(v, SBool):
        return "<symbool>"
    if isinstance(v, Fraction):
        return str(v)
    if isinstance(v, (bool, int, str)) or v is None:
        return v
    if isinstance(v, float):
        return v if v == v and v not in (INF, -INF) else repr(v)
    if isinstance(v, (list, tuple)):
        return [jsonable(x) for x in v]
    if isinstance(v, (set, frozenset)):
        return sorted((jsonable(x) for x in v), key=repr)
    if isinstance(v, dict):
        return {str(k): jsonable(x) for k, x in v.items()}
    if isinstance(v, SNum):
        return "<sym>"
    return repr(v)


def _alarm(signum, frame):
    raise PathTimeout()


class Explorer:
    def __init__(self, harness, params, *, query_timeout_ms=10000, path_wall_s=30.0, max_paths=None,
                 wall_s=None, validate=True, tol=1e-6, sample_every=1, extra_witness=False, spread=None):
        # spread: seed for a path-capped item whose tree may be far larger than the cap. Plain depth-first order would spend the whole cap
        # on the last decisions of one run; with a seed every other backtrack flips a RANDOM pending decision (of any earlier run) instead
        # of the deepest one. Pending alternatives are kept in a worklist, so a tree smaller than the cap is still covered exhaustively.
        self.spread = _random.Random(spread) if spread is not None else None
        self._skipped = False
        self.harness = harness
        self.params = params
        self.qto = query_timeout_ms
        self.path_wall = path_wall_s
        self.max_paths = max_paths
        self.wall_s = wall_s
        self.validate = validate
        self.tol = tol
        self.extra_witness = extra_witness
        self.stats = PathStats()

    # one symbolic path ------------------------------------------------------
    def _run_path(self, prefix, start_model, frontier_depth=None):
        global _CTX
        ctx = PathCtx(prefix, self.qto, start_model)
        ctx.frontier_depth = frontier_depth
        ctx.deadline = time.monotonic() + self.path_wall
        s = Sym(ctx)
        s.explorer = self
        _CTX = ctx
        outcome = "done"
        info = None
        old = signal.signal(signal.SIGALRM, _alarm)
        signal.setitimer(signal.ITIMER_REAL, self.path_wall + 1.0)
        try:
            try:
                self.harness(s, **self.params)
            finally:
                signal.setitimer(signal.ITIMER_REAL, 0)
                signal.signal(signal.SIGALRM, old)
                s._restore()
        except Infeasible:
            outcome = "pruned"
        except Frontier:
            outcome = "frontier"
        except CutPath as e:
            outcome = "cut"
            info = str(e)
        except PathTimeout:
            outcome = "timeout"
        except Inconclusive as e:
            outcome = "inconclusive"
            info = str(e)
        except Unmodelled as e:
            outcome = "unmodelled"
            info = str(e)
        except Exception as e:  # uncaught exception of the code under test on this path
            outcome = "exception"
            info = "%s: %s" % (type(e).__name__, e)
            import traceback as _tb
            tb = _tb.extract_tb(e.__traceback__)
            where = "%s:%d" % (tb[-1].filename.rsplit("/", 1)[-1], tb[-1].lineno) if tb else ""
            try:
                s.fail("no_exception", info + " @ " + where)
            except _Ctl:
                pass
        finally:
            _CTX = None
        return ctx, s, outcome, info

    # concrete replay --------------------------------------------------------
    def run_concrete(self, assignment, wall_s=None):
        """Run the harness natively (no stubs, real floats) with inputs bound from `assignment`.
        Existential obligations still go to z3, but over constants only."""
        global _CTX
        ctx = PathCtx([], self.qto)
        s = Sym(ctx, dict(assignment))
        s.explorer = self
        _CTX = ctx
        outcome = "done"
        info = None
        old = signal.signal(signal.SIGALRM, _alarm)
        signal.setitimer(signal.ITIMER_REAL, wall_s or (self.path_wall + 1.0))
        try:
            try:
                self.harness(s, **self.params)
            finally:
                signal.setitimer(signal.ITIMER_REAL, 0)
                signal.signal(signal.SIGALRM, old)
                s._restore()
        except Infeasible:
            outcome = "pruned"
        except CutPath as e:
            outcome = "cut"
        except PathTimeout:
            outcome = "timeout"
        except Inconclusive as e:
            outcome = "inconclusive"
        except Unmodelled as e:
            outcome = "unmodelled"
            info = str(e)
        except Exception as e:
            info = "%s: %s" % (type(e).__name__, e)
            s.obligations.append(("no_exception", "refuted", info))
        finally:
            _CTX = None
        return s, outcome, info

    def _eval_observed(self, ctx, s, m):
        global _CTX
        out = {}
        _CTX = ctx
        try:
            for k, v in s.observed.items():
                out[k] = _eval_struct(v, m)
        finally:
            _CTX = None
        return out

    def _validate(self, ctx, s):
        """Translation validation of the engine: run the path's witness natively and compare observations.
        Witnesses are tried in order: small dyadic values (robust against float rounding at branch boundaries), then the raw model."""
        st = self.stats
        try:
            m0 = ctx.get_model()
        except _Ctl:
            return
        has_real = any(kind == "real" for (_z, kind) in ctx.inputs.values())
        last_bad = None
        tried = 0
        for m in self._witnesses(ctx, m0, has_real):
            tried += 1
            bad, assignment, got = self._validate_one(ctx, s, m)
            if bad is None:
                st.validated += 1
                if len(st.samples) < 4:
                    st.samples.append({"params": jsonable(self.params), "witness_input": jsonable(assignment),
                                       "observed": jsonable(got),
                                       "obligations": [l for (l, v, _d) in s.obligations if v == "proved"][:12],
                                       "decisions_on_path": len(ctx.decisions)})
                if self.extra_witness and has_real:
                    self._extra_witness(ctx, s)
                return
            last_bad = {"assignment": jsonable(assignment), "why": jsonable(bad), "params": jsonable(self.params)}
        if has_real and tried == 1:
            # the path has no witness on the 1/1024 grid within +-1000: it lives in a rounding-width sliver of the input
            # space (e.g. inside an eps guard band), where exact reals and doubles may legitimately branch differently
            st.boundary_paths += 1
            return
        st.validation_mismatch.append(last_bad)

    def _extra_witness(self, ctx, s):
        """A second, solver-chosen witness of the same path with large-magnitude reals (|v| >= 8, multiples of 1/4), run natively as well:
        more diverse concrete inputs for obligations that only exist natively (compiled kernels)."""
        global _CTX
        _CTX = ctx
        m = None
        try:
            ctx.solver.set("timeout", 1500)
            ctx.solver.push()
            for (z, kind) in ctx.inputs.values():
                if kind == "real":
                    ctx.solver.add(z3.Or(z >= 8, z <= -8), z <= 1000, z >= -1000, z3.ToReal(z3.ToInt(z * 4)) == z * 4)
            if ctx._check() == z3.sat:
                m = ctx.solver.model()
            ctx.solver.pop()
        finally:
            ctx.solver.set("timeout", self.qto)
            _CTX = None
        if m is not None:
            bad, _a, _g = self._validate_one(ctx, s, m)
            if bad is None:
                self.stats.extra_witnesses += 1

    def _witnesses(self, ctx, m0, has_real):
        """The raw model first; only if it fails natively, look for a witness on a coarse dyadic grid."""
        global _CTX
        yield m0
        if not has_real:
            return
        for den in (1, 1024):
            _CTX = ctx
            m = None
            try:
                ctx.solver.set("timeout", 1500)
                ctx.solver.push()
                for (z, kind) in ctx.inputs.values():
                    if kind == "real":
                        ctx.solver.add(z3.ToReal(z3.ToInt(z * den)) == z * den, z <= 1000, z >= -1000)
                r = ctx._check()
                if r == z3.sat:
                    m = ctx.solver.model()
                ctx.solver.pop()
            finally:
                ctx.solver.set("timeout", self.qto)
                _CTX = None
            if m is not None:
                yield m
                return

    def _validate_one(self, ctx, s, m):
        assignment = s._model_assignment(m)
        global _CTX
        _CTX = ctx
        try:
            expected = {k: _eval_struct(v, m) for k, v in s.observed.items()}
        finally:
            _CTX = None
        cs, outcome, info = self.run_concrete(assignment)
        if outcome == "timeout":
            self.stats.inconclusive_paths += 1  # native run of the witness exceeded the wall budget: nothing to compare
            return None, assignment, {}
        if outcome != "done":
            return ("concrete run outcome " + outcome, info), assignment, None
        got = cs.observed
        bad = None
        for k in expected:
            if k not in got:
                bad = (k, "missing", expected[k])
                break
            if not _close(expected[k], got[k], self.tol):
                bad = (k, jsonable(expected[k]), jsonable(got[k]))
                break
        if bad is not None:
            # The real code, run in doubles on this witness, left the path its exact-real twin took (observations differ). The obligations
            # proved symbolically are then about another execution; the native run's own obligations are the only verdict on this one.
            # One that fails there is a violation shown on the real code with a concrete input (floats are not reals: e.g. ceil(4 + 1e-15)),
            # and is reported as such; a divergence with no failing native obligation stays a harness error.
            for (label, verdict, d) in cs.obligations:
                if verdict == "refuted" and not label.startswith("native:"):
                    self.stats.cex.append({"params": jsonable(self.params), "label": label, "assignment": assignment, "detail": jsonable(d),
                                           "reproduced": True, "observed": jsonable(got), "concrete_failed": [label],
                                           "float_divergent_path": jsonable(bad)})
        if bad is None:
            for (label, verdict, _d) in cs.obligations:
                if verdict == "refuted" and label.startswith("native:"):
                    continue  # obligations that only exist natively (e.g. compiled kernels) are reported below, as violations
                if verdict == "refuted" and not any(l == label for (l, _a, _dd) in s.cex):
                    bad = ("obligation", label, "holds symbolically, fails concretely")
                    break
        for (label, verdict, d) in cs.obligations:
            if verdict == "refuted" and label.startswith("native:"):
                self.stats.cex.append({"params": jsonable(self.params), "label": label, "assignment": assignment, "detail": jsonable(d),
                                       "reproduced": True, "observed": jsonable(got), "concrete_failed": [label]})
        if bad is None:
            for g in cs.goals:  # goals reachable only in native mode (e.g. seeded double runs)
                self.stats.goals[g] = self.stats.goals.get(g, 0) + 1
        return bad, assignment, got

    # main loop ----------------------------------------------------------------
    def frontier(self, depth):
        """Work splitting: returns decision prefixes [(taken, aux), ...] that partition the execution tree at `depth`."""
        out = []
        prefix = []
        start_model = None
        while True:
            ctx, s, outcome, info = self._run_path(prefix, start_model, frontier_depth=depth)
            dec = ctx.decisions
            if outcome != "pruned":
                # paths that end before the split depth are complete sub-trees of their own
                out.append([(d.taken, d.aux) for d in dec])
            i = len(dec) - 1
            while i >= 0 and not dec[i].alt:
                i -= 1
            if i < 0:
                break
            d = dec[i]
            prefix = dec[:i] + [Decision(not d.taken, False, d.aux, None)]
            start_model = d.alt_model
            d.alt_model = None
        return out

    def run(self, initial_prefix=None):
        st = self.stats
        t0 = time.monotonic()
        prefix = [Decision(t, False, a, None) for (t, a) in (initial_prefix or [])]
        floor = len(prefix)
        start_model = None
        work, prev_dec = [], None
        while True:
            if self.max_paths is not None and st.paths + st.pruned >= self.max_paths:
                st.exhaustive = False
                break
            if self.wall_s is not None and time.monotonic() - t0 > self.wall_s:
                st.exhaustive = False
                break
            if len(st.timeouts) >= 3:  # hanging sub-tree: stop this work item (reported, not exhaustive)
                st.exhaustive = False
                break
            ctx, s, outcome, info = self._run_path(prefix, start_model)
            st.queries += ctx.nq
            st.solver_time += ctx.solver_time
            st.nonlinear += ctx.nonlinear
            st.decisions += max(0, len(ctx.decisions) - len(prefix)) + (1 if prefix else 0)
            if outcome == "pruned":
                st.pruned += 1
            elif outcome == "cut":
                st.cut += 1
                st.paths += 1
            elif outcome == "timeout":
                st.paths += 1
                try:
                    global _CTX
                    _CTX = ctx
                    ass = s._model_assignment(None)
                except _Ctl:
                    ass = {}
                finally:
                    _CTX = None
                st.timeouts.append({"params": jsonable(self.params), "assignment": jsonable(ass)})
                self._handle_cex("returns", ass, "path exceeded %.0fs wall / decision budget" % self.path_wall)
            elif outcome == "inconclusive":
                st.paths += 1
                st.inconclusive_paths += 1
            elif outcome == "unmodelled":
                st.paths += 1
                st.unmodelled.append({"params": jsonable(self.params), "why": info})
            else:
                st.paths += 1
            if outcome == "exception":
                st.paths += 0
            if outcome in ("done", "cut", "exception"):
                for g in s.goals:
                    st.goals[g] = st.goals.get(g, 0) + 1
                if ctx.unknowns:
                    st.inconclusive_paths += 1
                for (label, verdict, _d) in s.obligations:
                    st.obligations += 1
                    if verdict == "proved":
                        st.proved += 1
                    elif verdict == "unknown":
                        st.unknown += 1
                for (label, assignment, detail) in s.cex:
                    self._handle_cex(label, assignment, detail)
                if self.validate and outcome == "done" and not s.cex:
                    self._validate(ctx, s)
            # backtrack
            dec = ctx.decisions
            if self.spread is not None:
                # generational worklist: every pending alternative of every finished run stays available (nothing is lost, the tree is
                # still covered exactly once if the cap allows); every other pick is a random pending one instead of the deepest
                for j in range(len(prefix), len(dec)):
                    if dec[j].alt:
                        work.append((dec, j))
                if prev_dec is not None and prev_dec is not dec:
                    for d0 in prev_dec:
                        d0.alt_model = None  # keep solver models only for the latest run (memory)
                prev_dec = dec
                if len(work) > 300000:
                    del work[:100000]
                    self._skipped = True
                if not work:
                    break
                k = self.spread.randrange(len(work)) if (st.paths + st.pruned) % 2 == 1 else -1
                dl, i = work.pop(k)
                d = dl[i]
                prefix = dl[:i] + [Decision(not d.taken, False, d.aux, None)]
                start_model = d.alt_model
                d.alt_model = None
                continue
            i = len(dec) - 1
            while i >= floor and not dec[i].alt:
                i -= 1
            if i < floor:
                break
            d = dec[i]
            flipped = Decision(not d.taken, False, d.aux, None)
            prefix = dec[:i] + [flipped]
            start_model = d.alt_model
            d.alt_model = None
        st.wall += time.monotonic() - t0
        if self._skipped:
            st.exhaustive = False
        return st

    def _handle_cex(self, label, assignment, detail):
        st = self.stats
        cs, outcome, info = self.run_concrete(assignment)
        rec = {"params": jsonable(self.params), "label": label, "assignment": assignment,
               "detail": jsonable(detail)}
        if outcome == "timeout":
            rec["concrete"] = "timeout"
            rec["reproduced"] = label == "returns"
        elif outcome != "done":
            rec["concrete"] = outcome
            rec["reproduced"] = False
        else:
            failed = [l for (l, v, _d) in cs.obligations if v == "refuted"]
            rec["concrete_failed"] = failed
            rec["reproduced"] = label in failed
            rec["observed"] = jsonable(cs.observed)
            for (l, v, d) in cs.obligations:
                if l == label and v == "refuted" and d is not None:
                    rec["detail"] = jsonable(d)
        if rec["reproduced"]:
            st.cex.append(rec)
        else:
            st.unreproduced.append(rec)


def _eval_struct(v, m):
    if isinstance(v, SNum):
        if not v.co:
            return v.value()
        r = _val(m.eval(v.z3(), model_completion=True))
        return r
    if isinstance(v, SBool):
        return z3.is_true(m.eval(v.z, model_completion=True))
    if isinstance(v, (list, tuple)):
        return [_eval_struct(x, m) for x in v]
    if isinstance(v, dict):
        return {k: _eval_struct(x, m) for k, x in v.items()}
    if isinstance(v, (set, frozenset)):
        return sorted(_eval_struct(x, m) for x in v)
    return v


def _close(a, b, tol):
    if isinstance(a, (list, tuple)) and isinstance(b, (list, tuple)):
        return len(a) == len(b) and all(_close(x, y, tol) for x, y in zip(a, b))
    if isinstance(a, dict) and isinstance(b, dict):
        return a.keys() == b.keys() and all(_close(a[k], b[k], tol) for k in a)
    if isinstance(a, (set, frozenset)) or isinstance(b, (set, frozenset)):
        return _close(sorted(a), sorted(b), tol)
    if isinstance(a, bool) or isinstance(b, bool):
        return bool(a) == bool(b)
    if isinstance(a, (int, float, Fraction)) and isinstance(b, (int, float, Fraction)):
        fa, fb = float(a), float(b)
        if fa == fb:
            return True
        return abs(fa - fb) <= tol * max(1.0, abs(fa), abs(fb))
    return a == b

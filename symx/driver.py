"""Check driver: fans work items over processes, aggregates, writes evidence, decides exit status."""

from __future__ import annotations

import hashlib
import importlib
import json
import multiprocessing as mp
import os
import random
import sys
import time
import traceback

from .core import Explorer, PathStats, jsonable

VERIF = os.path.dirname(os.path.dirname(os.path.abspath(__file__)))
REPO = os.environ.get("SOLVOR_REPO", "/repo")
# mutation sweeps (tools/regress.sh) write their evidence/replays elsewhere so that the committed evidence stays the unchanged tree's
OUT = os.environ.get("VERIF_OUT") or VERIF

EXIT_OK, EXIT_VIOLATION, EXIT_HARNESS = 0, 1, 3


def sha256_file(path):
    h = hashlib.sha256()
    with open(path, "rb") as f:
        h.update(f.read())
    return h.hexdigest()


def _worker(args):
    modname, item, opts = args
    os.environ["SOLVOR_VERIF"] = "1"
    mod = importlib.import_module(modname)
    harness = getattr(mod, item["harness"])
    t0 = time.monotonic()
    from . import core as _core
    _core.ARITH_SOLVER = item.get("arith_solver", opts.get("arith_solver"))
    try:
        ex = Explorer(harness, item["params"], query_timeout_ms=item.get("query_timeout_ms", opts["qto"]),
                      path_wall_s=item.get("path_wall_s", opts["path_wall"]),
                      max_paths=item.get("max_paths", opts.get("max_paths")),
                      wall_s=item.get("wall_s", opts.get("item_wall")),
                      validate=item.get("validate", True), tol=item.get("tol", 1e-6), extra_witness=item.get("extra_witness", False),
                      spread=item.get("spread"))
        st = ex.run(initial_prefix=item.get("prefix"))
        st.item = item
        st.error = None
    except BaseException as e:  # engine failure: report, never a violation
        st = PathStats()
        st.item = item
        st.error = "%s: %s\n%s" % (type(e).__name__, e, traceback.format_exc()[-1500:])
    st.item_wall = time.monotonic() - t0
    # strip unpicklables
    return st


def _frontier_worker(args):
    modname, item = args
    os.environ["SOLVOR_VERIF"] = "1"
    mod = importlib.import_module(modname)
    harness = getattr(mod, item["harness"])
    try:
        pf = Explorer(harness, item["params"]).frontier(item["split"])
    except BaseException as e:
        return item, None
    return item, pf


def load_known_findings():
    p = os.path.join(VERIF, "known_findings.json")
    if not os.path.exists(p):
        return {"findings": [], "fixed": []}
    with open(p) as f:
        return json.load(f)


def run_check(modname, tier, seed, replay=None):
    os.environ["SOLVOR_VERIF"] = "1"
    mod = importlib.import_module(modname)
    pid = mod.PROPERTY
    if replay:
        return do_replay(mod, replay)
    t0 = time.monotonic()
    rng = random.Random(seed)
    items = mod.items(tier, rng)
    opts = dict(qto=10000, path_wall=20.0)
    opts.update(getattr(mod, "OPTS", {}).get(tier, {}))
    nproc = int(os.environ.get("VERIF_JOBS", "0")) or min(16, os.cpu_count() or 4)
    # total wall budget: work items not finished by then are skipped (counted in the evidence, exhaustive=false). Both tiers have one: the
    # quick tier needs <= 90 s on the unchanged tree, but a change that makes the code spin until its iteration limit (every path then runs
    # into its wall) would otherwise keep the check busy for hours before it reports what it already found
    budget = opts.get("wall_budget", 900 if tier == "thorough" else 600)
    if os.environ.get("VERIF_WALL_BUDGET"):
        budget = float(os.environ["VERIF_WALL_BUDGET"])
    total = PathStats()
    errors = []
    per_item = []
    skipped = 0
    ctx = mp.get_context("fork")
    split_items = [it for it in items if it.get("split")]
    if split_items:
        with ctx.Pool(min(nproc, len(split_items))) as pool:
            expanded = pool.map(_frontier_worker, [(modname, it) for it in split_items], chunksize=1)
        items = [it for it in items if not it.get("split")]
        big = []
        for it, pfs in expanded:
            if pfs is None:
                it2 = dict(it)
                it2.pop("split")
                big.append(it2)
                continue
            for pf in pfs:
                it2 = dict(it)
                it2.pop("split")
                it2["prefix"] = pf
                big.append(it2)
        items = big + items
    work = [(modname, it, opts) for it in items]
    opts.setdefault("item_wall", 240 if tier == "thorough" else 150)  # per work item; hitting it makes the item non-exhaustive (reported)
    work = [(modname, it, opts) for it in items]
    with ctx.Pool(nproc, maxtasksperchild=opts.get("maxtasks", 400)) as pool:
        results = pool.imap_unordered(_worker, work, chunksize=1)
        while True:
            try:
                st = results.next(timeout=5)
            except mp.TimeoutError:
                st = None
            except StopIteration:
                break
            if st is not None:
                if st.error:
                    errors.append({"item": jsonable(st.item), "error": st.error})
                total.merge(st)
                per_item.append((st.item.get("name", ""), st.paths, round(st.item_wall, 2)))
            if budget and time.monotonic() - t0 > budget:
                pool.terminate()
                skipped = len(work) - len(per_item)
                total.exhaustive = False
                break
    wall = time.monotonic() - t0

    # ---- classify counterexamples against known findings
    kf = load_known_findings()
    matchers = getattr(mod, "KNOWN_CLASSES", {})
    violations, known_seen = [], {}
    for cex in total.cex:
        hit = None
        for f in kf.get("findings", []):
            if f["property"] != pid:
                continue
            pred = matchers.get(f["class"])
            if pred is None:
                continue
            if f.get("obligation") and f["obligation"] != cex["label"]:
                continue
            try:
                if pred(cex):
                    hit = f
                    break
            except Exception:
                pass
        if hit:
            known_seen.setdefault(hit["id"], []).append(cex)
        else:
            violations.append(cex)

    status = EXIT_OK
    lines = []
    for f in kf.get("findings", []):
        if f["property"] != pid:
            continue
        lst = known_seen.get(f["id"], [])
        eg = (" e.g. " + json.dumps(jsonable(lst[0]["assignment"]))[:200]) if lst else ""
        lines.append("KNOWN-FINDING: property=%s %s [%s; witness %s] (%d path(s) of this run hit it;%s)" % (
            pid, f["what"], f["id"], json.dumps(f.get("witness"))[:160], len(lst), eg))
    replay_paths = []
    if violations:
        status = EXIT_VIOLATION
        os.makedirs(os.path.join(OUT, "replays"), exist_ok=True)
        seen_labels = {}
        for v in violations:
            seen_labels.setdefault((v["label"], json.dumps(jsonable(v["params"]), sort_keys=True)), v)
        for k, v in list(seen_labels.items())[:5]:
            name = "%s_%s_%s.json" % (pid, "".join(ch if ch.isalnum() else "_" for ch in v["label"])[:40],
                                      hashlib.sha1(json.dumps(jsonable(v), sort_keys=True).encode()).hexdigest()[:8])
            path = os.path.join(OUT, "replays", name)
            with open(path, "w") as f:
                json.dump({"property": pid, "module": modname, "harness": _harness_of(items, v), "params": v["params"],
                           "assignment": jsonable(v["assignment"]), "label": v["label"],
                           "detail": v.get("detail"), "observed": v.get("observed")}, f, indent=1)
            replay_paths.append(path)
            lines.append("VIOLATION property=%s replay=%s" % (pid, path))
    # harness errors: engine exceptions, unmodelled operations, symbolic/native divergence, vacuity
    harness_problems = []
    if errors:
        harness_problems.append("engine errors: %d (first: %s)" % (len(errors), errors[0]["error"][:300]))
    if total.validation_mismatch:
        harness_problems.append("symbolic/native divergence on %d path(s) (first: %s)" % (
            len(total.validation_mismatch), json.dumps(jsonable(total.validation_mismatch[0]))[:400]))
    if total.unmodelled:
        harness_problems.append("unmodelled operation on %d path(s) (first: %s)" % (
            len(total.unmodelled), json.dumps(jsonable(total.unmodelled[0]))[:300]))
    # a symbolic path that ran out of budget but returns natively is inconclusive (e.g. a loop bounded only by an unbounded symbolic
    # budget), not a harness error; an exception that does not reproduce natively is one
    n_budget = len([u for u in total.unreproduced if u["label"] == "returns"])
    if n_budget:
        total.inconclusive_paths += n_budget
    # any other obligation the solver refuted on a path but whose witness passes natively: not proved, not a violation -> inconclusive
    n_other = len([u for u in total.unreproduced if u["label"] not in ("returns", "no_exception")])
    if n_other:
        total.inconclusive_paths += n_other
        print("note: %d obligation(s) refuted symbolically but not reproduced natively (counted as inconclusive; first: %s)" % (
            n_other, [u["label"] for u in total.unreproduced if u["label"] not in ("returns", "no_exception")][0]))
    unrep_exc = [u for u in total.unreproduced if u["label"] == "no_exception"]
    if unrep_exc:
        harness_problems.append("exception/timeout on a symbolic path that does not reproduce natively on %d path(s) (first: %s)" % (
            len(unrep_exc), json.dumps(jsonable(unrep_exc[0]))[:400]))
    if total.boundary_paths > max(5, total.paths // 20):
        harness_problems.append("too many float-boundary paths without a native witness: %d of %d" % (total.boundary_paths, total.paths))
    if total.paths == 0 or (total.validated == 0 and getattr(mod, "REQUIRE_VALIDATED", True)):
        harness_problems.append("vacuous: %d paths, %d validated" % (total.paths, total.validated))
    if skipped:
        print("note: wall budget of %d s reached, %d of %d work items were not run (counted in the evidence, exhaustive=false)" % (budget, skipped, len(work)))
    missing_goals = [g for g in getattr(mod, "GOALS", {}).get(tier, []) if not total.goals.get(g)]
    if missing_goals and not skipped:
        harness_problems.append("coverage goals not reached: %s" % missing_goals)
    elif missing_goals:
        print("note: coverage goals not reached before the wall budget cut the run: %s" % missing_goals)
    if harness_problems and status == EXIT_OK:
        status = EXIT_HARNESS
        for h in harness_problems:
            lines.append("HARNESS-ERROR property=%s %s" % (pid, h))

    # ---- evidence
    files = {}
    for rel in mod.FILES:
        p = os.path.join(REPO, rel)
        files[rel] = sha256_file(p) if os.path.exists(p) else "missing"
    ev = {
        "property_id": pid,
        "tier": tier,
        "seed": seed,
        "level": "model_checking",
        "wall_s": round(wall, 2),
        "violations": len(violations),
        "assumptions": list(mod.ASSUMPTIONS),
        "coverage": {
            "states": total.paths,
            "transitions": total.decisions,
            "traces_validated_against_impl": total.validated,
            "samples": total.samples[:4] or [{"note": "no validated path"}],
            "exhaustive": bool(total.exhaustive and not total.inconclusive_paths and not skipped and not total.unknown),
            "functions_encoded": mod.FUNCTIONS,
            "source_sha256": files,
            "bounds": mod.BOUNDS.get(tier, ""),
            "outside_bounds": getattr(mod, "OUTSIDE", ""),
            "stubs": getattr(mod, "STUBS", []),
            "work_items": len(items),
            "work_items_skipped_by_budget": skipped,
            "paths_pruned_infeasible": total.pruned,
            "paths_cut": total.cut,
            "obligations": total.obligations,
            "discharged": total.proved,
            "obligations_unknown": total.unknown,
            "inconclusive_paths": total.inconclusive_paths,
            "float_boundary_paths_not_validated": total.boundary_paths,
            "extra_large_value_witnesses_run_natively": total.extra_witnesses,
            "queries": total.queries,
            "solver_time_s": round(total.solver_time, 2),
            "nonlinear_terms": total.nonlinear,
            "coverage_goals": total.goals,
            "coverage_goals_missing": missing_goals,
            "unreproduced_counterexamples": len(total.unreproduced),
            "unreproduced_samples": jsonable(total.unreproduced[:3]),
            "known_findings_seen": {k: len(v) for k, v in known_seen.items()},
            "counterexamples": jsonable(violations[:5]),
            "harness_problems": harness_problems,
            "slowest_items": sorted(per_item, key=lambda x: -x[2])[:5],
            "solver": "z3 " + __import__("z3").get_version_string(),
            "explanation": getattr(mod, "EXPLANATION", ""),
        },
    }
    os.makedirs(os.path.join(OUT, "evidence"), exist_ok=True)
    with open(os.path.join(OUT, "evidence", pid + ".json"), "w") as f:
        json.dump(ev, f, indent=1)
    print("%s tier=%s items=%d paths=%d pruned=%d decisions=%d queries=%d obligations=%d proved=%d unknown=%d "
          "validated=%d unreproduced=%d inconclusive=%d exhaustive=%s solver=%.1fs wall=%.1fs" % (
              pid, tier, len(items), total.paths, total.pruned, total.decisions, total.queries, total.obligations,
              total.proved, total.unknown, total.validated, len(total.unreproduced), total.inconclusive_paths,
              ev["coverage"]["exhaustive"], total.solver_time, wall))
    if total.goals:
        print("goals:", json.dumps(total.goals, sort_keys=True))
    for l in lines:
        print(l)
    if hasattr(mod, "cleanup"):
        mod.cleanup()
    return status


def _harness_of(items, v):
    pj = json.dumps(jsonable(v["params"]), sort_keys=True)
    for it in items:
        if json.dumps(jsonable(it["params"]), sort_keys=True) == pj:
            return it["harness"]
    return items[0]["harness"] if items else None


def do_replay(mod, path):
    with open(path) as f:
        rec = json.load(f)
    harness = getattr(mod, rec["harness"])
    params = rec["params"]
    if hasattr(mod, "params_from_json"):
        params = mod.params_from_json(params)
    ex = Explorer(harness, params)
    from fractions import Fraction
    ass = {}
    for k, v in rec["assignment"].items():
        ass[k] = Fraction(v) if isinstance(v, str) else v
    s, outcome, info = ex.run_concrete(ass, wall_s=60)
    print("replay of %s: outcome=%s" % (path, outcome))
    failed = [(l, d) for (l, v, d) in s.obligations if v == "refuted"]
    print("observed:", json.dumps(jsonable(s.observed))[:2000])
    for l, d in failed:
        print("FAILED obligation:", l, json.dumps(jsonable(d))[:500] if d is not None else "")
    if outcome == "timeout" and rec["label"] == "returns":
        print("FAILED obligation: returns (the call did not come back)")
        return EXIT_VIOLATION
    if any(l == rec["label"] for l, _ in failed):
        print("VIOLATION property=%s replay=%s" % (rec["property"], path))
        return EXIT_VIOLATION
    print("does not reproduce on the current tree")
    return EXIT_OK


def main(argv=None):
    import argparse
    ap = argparse.ArgumentParser()
    ap.add_argument("prop")
    ap.add_argument("--tier", default=os.environ.get("VERIF_TIER", "quick"))
    ap.add_argument("--replay")
    a = ap.parse_args(argv)
    seed = int(os.environ.get("VERIF_SEED", "0") or 0)
    modname = "checks." + a.prop.lower()
    sys.path.insert(0, VERIF)
    sys.setrecursionlimit(10000)
    rc = run_check(modname, a.tier, seed, a.replay)
    sys.exit(rc)

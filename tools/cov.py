#!/usr/bin/env python3
"""cov.py <check> [max_paths_per_item|0=item's own] [max_items] [shard/nshards]: line coverage of the property's anchored files while the check's own harnesses run
(in-process, a few paths per work item). A blind-spot finder for the item generators, not part of any verdict."""
import sys, os, json, importlib, random, time
sys.path.insert(0, os.path.dirname(os.path.dirname(os.path.abspath(__file__))))
sys.setrecursionlimit(10000)
os.environ["SOLVOR_VERIF"] = "1"
import coverage
REPO = os.environ.get("SOLVOR_REPO", "/repo")
mod = importlib.import_module("checks." + sys.argv[1])
mp = int(sys.argv[2]) if len(sys.argv) > 2 else 20
mi = int(sys.argv[3]) if len(sys.argv) > 3 else 400
files = [os.path.join(REPO, f) for f in mod.FILES]
cov = coverage.Coverage(include=files, data_file=None, branch=True)
from symx import core
from symx.core import Explorer
core.ARITH_SOLVER = getattr(mod, "OPTS", {}).get("quick", {}).get("arith_solver")
items = mod.items("quick", random.Random(0))
random.Random(1).shuffle(items)
if os.environ.get("COV_PARAM_FILTER"):
    items = [it for it in items if os.environ["COV_PARAM_FILTER"] in json.dumps(it["params"])]
if len(sys.argv) > 4:
    sh, nsh = [int(x) for x in sys.argv[4].split("/")]
    items = items[sh::nsh]
cov.start()
t0 = time.time()
n = 0
for it in items[:mi]:
    params = it["params"]
    try:
        Explorer(getattr(mod, it["harness"]), params, max_paths=(mp or it.get("max_paths") or 400), wall_s=40, path_wall_s=10, validate=False,
                 spread=it.get("spread", 7)).run()
    except BaseException as e:
        print("item error", it["name"], type(e).__name__, e)
    n += 1
    if time.time() - t0 > 1500:
        break
cov.stop()
print("items run", n, "of", len(items))
for f in files:
    try:
        _, stmts, _, missing, fmt = cov.analysis2(f)
        print("%s: %d stmts, %d missing: %s" % (os.path.relpath(f, REPO), len(stmts), len(missing), fmt))
        print("MISSING %s %s" % (os.path.relpath(f, REPO), json.dumps(missing)))
    except Exception as e:
        print(f, "no data", e)
if hasattr(mod, "cleanup"):
    mod.cleanup()

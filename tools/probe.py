#!/usr/bin/env python3
"""probe.py <check> <harness> '<json params>' [max_paths] [wall] [spread-seed]: run one work item in-process and print stats."""
import sys, time, json
sys.path.insert(0, '/verif')
sys.setrecursionlimit(10000)
import importlib
from symx import core
from symx.core import Explorer
mod = importlib.import_module('checks.' + sys.argv[1])
core.ARITH_SOLVER = getattr(mod, 'OPTS', {}).get('quick', {}).get('arith_solver')
params = json.loads(sys.argv[3])
if hasattr(mod, 'params_from_json'):
    params = mod.params_from_json(params)
mp = int(sys.argv[4]) if len(sys.argv) > 4 else 300
wall = float(sys.argv[5]) if len(sys.argv) > 5 else 60
t = time.time()
ex = Explorer(getattr(mod, sys.argv[2]), params, max_paths=mp, wall_s=wall, path_wall_s=30, spread=(int(sys.argv[6]) if len(sys.argv) > 6 else None))
st = ex.run()
print("paths", st.paths, "pruned", st.pruned, "queries", st.queries, "solver %.1f" % st.solver_time, "wall %.1f" % (time.time() - t),
      "oblig", st.obligations, "proved", st.proved, "unk", st.unknown, "cex", len(st.cex), "unrep", len(st.unreproduced),
      "mismatch", len(st.validation_mismatch), "unmodelled", len(st.unmodelled), "exh", st.exhaustive, "goals", st.goals)
for c in st.cex[:3]:
    print(" CEX", c['label'], json.dumps(core.jsonable(c['assignment']))[:300], c.get('detail'), c.get('observed'))
for c in st.unreproduced[:3]:
    print(" UNREP", c['label'], json.dumps(core.jsonable(c['assignment']))[:300], c.get('detail'), c.get('concrete_failed'), c.get('concrete'))
for c in st.validation_mismatch[:2]:
    print(" MISMATCH", json.dumps(c)[:500])
for c in st.unmodelled[:2]:
    print(" UNMODELLED", c)

#!/usr/bin/env python3
"""Prints the DESIGN.md section-11 table from the committed evidence files (quick tier)."""
import json, os
HERE = os.path.dirname(os.path.dirname(os.path.abspath(__file__)))
rows = []
for i in range(1, 21):
    pid = "C%02d" % i
    d = json.load(open(os.path.join(HERE, "evidence", pid + ".json")))
    c = d["coverage"]
    rows.append((pid, c.get("states"), c.get("obligations"), c.get("queries"), c.get("solver_time_s"), d.get("wall_s"), c.get("exhaustive"), d.get("tier")))
print("| check | paths | obligations proved | solver queries | solver time | wall | tree exhausted |")
print("|---|---|---|---|---|---|---|")
for r in rows:
    print("| %s | %s | %s | %s | %.0f s | %.0f s | %s |" % (r[0], r[1], r[2], r[3], r[4] or 0, r[5] or 0, "yes" if r[6] else "no (capped items)"))

#!/bin/bash
# tools/intake.sh <seed-name> <src-dir> <property> ["tests/solvors/test_x.py ..."]
# Parallel-safe variant of seedtest.py: confirms a sub-agent's seeded change in a scratch worktree of /repo (never /repo itself), runs
# the property's quick check against that worktree (SOLVOR_REPO / PYTHONPATH / VERIF_OUT point away from /repo and /verif/evidence) and
# writes seeded/<seed-name>/{patch.diff,demo.py,notes.md,meta.json}. The scratch worktree is removed at the end.
cd "$(dirname "$0")/.."
VERIF=$(pwd)
name=$1; src=$2; prop=$3; tests=$4
dst=$VERIF/seeded/$name
mkdir -p "$dst"
for f in patch.diff demo.py notes.md; do [ -f "$src/$f" ] && cp "$src/$f" "$dst/$f"; done
W=$(mktemp -d /tmp/intake_XXXXXX)
git -C /repo worktree add -q --detach "$W/repo" HEAD || exit 2
cp /repo/solvor/_solvor_rust*.so "$W/repo/solvor/" 2>/dev/null
(cd /tmp && PYTHONPATH="$W/repo" timeout 900 /venv/bin/python "$dst/demo.py" >"$W/clean.out" 2>&1); clean=$?
applies=true
git -C "$W/repo" apply "$dst/patch.diff" || applies=false
if $applies; then
  (cd /tmp && PYTHONPATH="$W/repo" timeout 900 /venv/bin/python "$dst/demo.py" >"$W/patched.out" 2>&1); patched=$?
  tl=""
  if [ -n "$tests" ]; then tl=$(cd "$W/repo" && PYTHONPATH="$W/repo" /venv/bin/python -m pytest -q -p no:cacheprovider --timeout=900 $tests 2>&1 | tail -1); fi
  t0=$(date +%s)
  out=$(SOLVOR_REPO="$W/repo" PYTHONPATH="$W/repo" VERIF_OUT="$W/out" ./check "$prop" --tier quick 2>&1); rc=$?
  wall=$(( $(date +%s) - t0 ))
else
  patched=-1; rc=-1; out=""; wall=0; tl=""
fi
echo "$out" | grep -E '^(VIOLATION|HARNESS-ERROR|KNOWN-FINDING)' | head -6 | sed "s#$W/out#/verif#" > "$W/lines.txt"
python3 - "$dst" "$name" "$prop" "$clean" "$applies" "$patched" "$rc" "$wall" "$W" "$tl" <<'E'
import json, os, sys
dst, name, prop, clean, applies, patched, rc, wall, W, tl = sys.argv[1:11]
lines = open(W + "/lines.txt").read().splitlines()
meta = {"property": prop, "name": name, "demo_on_clean_tree_exit": int(clean), "applies": applies == "true",
        "demo_with_patch_exit": int(patched),
        "demo_with_patch_tail": open(W + "/patched.out").read()[-400:] if os.path.exists(W + "/patched.out") else "",
        "tests_with_patch": [tl] if tl else [], "check_cmd": "./check %s --tier quick (scratch worktree via SOLVOR_REPO)" % prop,
        "check_exit": int(rc), "check_wall_s": int(wall), "check_lines": lines,
        "detected": int(rc) == 1 and any(l.startswith("VIOLATION") for l in lines)}
n = os.path.join(dst, "notes.md")
if os.path.exists(n):
    meta["needs_to_manifest"] = open(n).read()[:1500]
json.dump(meta, open(os.path.join(dst, "meta.json"), "w"), indent=1)
print(json.dumps({k: v for k, v in meta.items() if k != "needs_to_manifest"}, indent=1))
E
git -C /repo worktree remove --force "$W/repo"; git -C /repo worktree prune; rm -rf "$W"

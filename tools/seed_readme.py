#!/usr/bin/env python3
"""Regenerates seeded/README.md from the meta.json files."""
import glob, json, os
HERE = os.path.dirname(os.path.dirname(os.path.abspath(__file__)))
rows = []
for d in sorted(glob.glob(os.path.join(HERE, "seeded", "*"))):
    mp = os.path.join(d, "meta.json")
    if not os.path.exists(mp):
        continue
    m = json.load(open(mp))
    first = (m.get("check_lines") or [""])[0]
    rows.append("| %s | %s | %s | demo clean=%s patched=%s | %s | `%s` | %s |" % (
        os.path.basename(d), m.get("property"), ("superseded" if m.get("superseded") else ("yes" if m.get("detected") else "NO")), m.get("demo_on_clean_tree_exit"), m.get("demo_with_patch_exit"),
        m.get("check_cmd", ""), first[:110], ((m.get("strengthening") or "") + (" SUPERSEDED: " + m["superseded"] if m.get("superseded") else ""))))
open(os.path.join(HERE, "seeded", "README.md"), "w").write(
    "# Seeded changes\n\nEach directory: patch.diff (git apply on /repo), demo.py (passes clean, fails patched), notes.md (what it needs to manifest), "
    "meta.json (what was run: `tools/seedtest.py`).\n\n| seed | property | detected | demo | check run | first line reported | strengthening needed |\n|---|---|---|---|---|---|---|\n"
    + "\n".join(rows) + "\n")
print(len(rows), "seeds")

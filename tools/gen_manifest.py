#!/usr/bin/env python3
"""Regenerates MANIFEST.json from the table below (keeps it schema-valid at all times)."""
import json
import os
import subprocess

HERE = os.path.dirname(os.path.dirname(os.path.abspath(__file__)))

TECH = "bounded symbolic execution of the real Python functions (symx proxies + z3): numeric inputs stay SMT variables, every branch is a solver query, every obligation a z3 validity query; sat answers replayed natively"

GEN_NOTE = ("Trusted: z3; the symx proxy engine (each explored path's solver witness is also run natively through the real code and "
            "compared); Python floats modelled as exact reals; structural inputs enumerated only inside the stated bound "
            "(evidence.coverage.bounds / outside_bounds).")

CLAIMED = {
    # id: (technique detail, level text, level note, design_ref)
    "C01": ("symbolic execution of the real solve_sat with the four budgets (solution_limit, luby_factor, max_conflicts, max_restarts) as unbounded SMT Ints over an enumerated/seeded CNF space; z3 branch queries; returned models checked against the CNF",
            "Bounded model checking: for every CNF and assumption list in the stated space and EVERY value of the four tuning parameters (symbolic, unbounded), every returned assignment satisfies all clauses and assumptions and enumerated models are pairwise distinct; includes a pass with reduce_db's threshold lowered to 2 (in-memory copy of the function).",
            GEN_NOTE + " CNF structure is enumerated (exhaustive up to 3 clauses over 3 variables, sampled/named beyond), not symbolic. One known finding (solve_sat([[]]) returns OPTIMAL {}), listed in known_findings.json, printed as KNOWN-FINDING on every run.",
            "DESIGN.md 4/C01"),
    "C02": ("symbolic execution of the real solve_sat with unbounded symbolic budgets; z3 as independent SAT oracle for verdicts and for entailment of every learned clause (SOLVOR_VERIF hook trace); luby() executed symbolically against the reference sequence",
            "Bounded model checking: INFEASIBLE only if z3 says unsat, a model whenever z3 says sat unless the path condition forces a budget to be exhausted (MAX_ITER justified by the path condition), every learned clause implied by formula + earlier blocking clauses, every path returns within the wall budget (hangs replayed natively), luby(i) equals the reference for i<=512.",
            GEN_NOTE + " Hook: solvor/sat.py reports learned clauses / ticks when SOLVOR_VERIF=1. One known finding (solve_sat([[]]) returns OPTIMAL {} for an unsatisfiable formula), listed in known_findings.json, printed as KNOWN-FINDING on every run.",
            "DESIGN.md 4/C02"),
    "C08": ("symbolic execution of the real max_flow with every capacity an unbounded non-negative SMT Int per topology; obligations (capacity, conservation, value = min cut over all 2^(n-2) cuts) discharged by z3",
            "Bounded model checking: for every topology in the bound (all 4-node graphs with <=4 arcs + named 6-7 node family) and EVERY capacity vector, the returned flow is feasible and its value equals the minimum cut.",
            GEN_NOTE, "DESIGN.md 4/C08"),
    "C09": ("symbolic execution of min_cost_flow / network_simplex / solve_assignment with capacities, demand/supplies (pass cap) or costs (pass cost) as unbounded SMT Ints per topology; optimality = z3 query for a strictly cheaper feasible integer flow (fresh Int variables)",
            "Bounded model checking: on the named topologies (3-5 nodes) for EVERY capacity/supply vector (resp. cost vector): flow within capacity, balances met exactly, integral, objective = sum cost*flow, no cheaper feasible integer flow, INFEASIBLE only if none exists; assignment optimal over all matchings up to 3x2.",
            GEN_NOTE, "DESIGN.md 4/C09"),
    "C10": ("symbolic execution of the real solve_hungarian with every matrix entry an unbounded SMT Int/Real; optimality as explicit conjunction over all matchings, discharged by z3 per path",
            "Bounded model checking: for every shape up to 3x3 (+1x4, 4x1; thorough to 4x4), both directions and EVERY matrix of that shape (unbounded ints and reals), the assignment is a matching of size min(r,c), the objective is the sum of chosen entries and no matching is better.",
            GEN_NOTE, "DESIGN.md 4/C10"),
    "C03": ("symbolic execution of the real two-phase simplex (solve_lp/_phase1/_phase2/_pivot/_extract) with A structural and b (all reals) or c (multiples of 1/8, unbounded) symbolic; optimality via a fresh-variable z3 query / exact vertex-and-ray enumeration; interior point: exit tests from an arbitrary symbolic interior state",
            "Bounded model checking: for every A in the bound and EVERY right-hand side (resp. every cost vector on the 1/8 lattice): OPTIMAL => tau-feasible point, objective = c.x, no feasible point better, bounded; INFEASIBLE => exactly infeasible; UNBOUNDED => feasible and improving ray; MAX_ITER only at the limit. solve_lp_interior: FEASIBLE/OPTIMAL exits are primal feasible and faithfully scored from ANY interior state (1x1..2x2), optimality gap for 1x1.",
            GEN_NOTE + " Interior point: Newton step cut, convergence not claimed.", "DESIGN.md 4/C03"),
    "C04": ("symbolic execution of solve_milp (branch and bound, node LPs through the real solve_lp, rounding heuristic, LNS, warm start, solution pool) with A, c structural and the right-hand side a vector of symbolic Ints; optimality against every integer point of the box (continuous coordinates as fresh existential Reals) by z3",
            "Bounded model checking: sampled (A,c) cells with 2-3 variables (all-integer, mixed, binary-style) for EVERY right-hand side in -20..20: returned solution and every pool entry feasible and integral, objective = c.x, OPTIMAL => no integer-feasible point better, INFEASIBLE => none exists; options heuristics/warm start/LNS/solution_limit never change that.",
            GEN_NOTE, "DESIGN.md 4/C04"),
    "C05": ("programs (CP models built through the public operators/constructors) run through the real Model.solve for solver in {auto,dfs,sat}, fresh and shared model objects, hints, symbolic solution_limit; z3 decides the reference semantics of the same descriptor",
            "Bounded model checking over a program grammar: every linear expression shape the operators can produce (20 shapes x ==/!=, sampled instantiations), every global constraint, two-constraint programs: every returned assignment is total, in-domain and satisfies the reference formula; INFEASIBLE only if z3 finds no solution; back-ends agree.",
            GEN_NOTE + " Instantiations of each shape are VERIF_SEED-sampled; no numeric symbolic dimension except solution_limit.", "DESIGN.md 4/C05"),
    "C06": ("the real SATEncoder runs per program (solve_sat wrapped to capture the clause list); z3 decides over ALL boolean assignments of the produced CNF: exactly-one, soundness (CNF & link & not Phi unsat), completeness (every Phi-solution extends to a CNF model)",
            "Translation validation by solver: for every program of the grammar sample the CNF has exactly the models of the CP problem (nothing extra incl. auxiliaries, nothing missing), each variable decodes to exactly one value, encoder short-cuts to INFEASIBLE only for unsatisfiable programs.",
            GEN_NOTE, "DESIGN.md 4/C06"),
    "C07": ("symbolic execution of the real solve_exact_cover/_build_links/_cover/_uncover with every matrix cell a symbolic Bool and max_solutions/max_iter symbolic Ints; z3 model enumeration of exact covers as oracle",
            "Bounded model checking: every 0/1 matrix of the shapes in the bound, secondary subsets, find_all on/off; every returned selection is an exact cover, complete find_all lists all covers once, INFEASIBLE iff none, status mapping for all limit values, links restored after a complete search, cover/uncover inverse law.",
            GEN_NOTE, "DESIGN.md 4/C07"),
    "C11": ("symbolic execution of dijkstra/astar/astar_grid/bfs/dfs/bellman_ford/floyd_warshall/dijkstra_edges with lazily forked arc presence and unbounded symbolic weights, heuristic values, max_cost, max_iter; optimality against the explicit list of simple paths/cycles via z3",
            "Bounded model checking: on the potential graphs of the bound, for EVERY arc subset (lazy) and EVERY weight vector / consistent heuristic / limit value: exact distances, genuine paths, INFEASIBLE iff unreachable, UNBOUNDED iff (reachable) negative cycle; grids: every layout of the shapes with symbolic terrain cost.",
            GEN_NOTE, "DESIGN.md 4/C11"),
    "C12": ("symbolic execution of the routing decorator, the nine Rust adapters and the Python back-ends with the compiled kernel replaced by a twin (Python reference re-packed in the kernel's dict format), weights symbolic Reals / edge presence symbolic; the Rust kernels themselves only by replaying every path witness through the extension rebuilt from /repo/rust",
            "Two layers, stated in the evidence: (a) bounded model checking of adapters + routing + Python back-ends (same status / distances / reachability / weight / partition, valid paths and orders) for ALL weights on the edge lists of the bound; (b) the rebuilt Rust extension is compared natively (rust vs python vs default back-end) on the witness of every explored path - solver-generated path-covering tests, not a for-all verdict over the kernels.",
            "Trusted: z3, symx; the twin-kernel assumption is validated on every path witness against the real extension, not trusted. No Rust verifier exists in the sandbox; kernels are heap-backed f64/pyo3 code outside the reach of an MIR->SMT translation here.",
            "DESIGN.md 4/C12 and 6"),
    "C13": ("symbolic execution of kruskal (Python back-end) and prim with every edge weight an unbounded SMT Real; minimality against every spanning tree/forest of the multigraph via z3",
            "Bounded model checking: every simple graph on <=4 nodes plus named multigraphs, all weights, plus 7-node union-by-rank graphs (unequal-rank merges; weights symbolic in list order): n-1 input edges, acyclic, spanning, objective = total weight <= every spanning tree; disconnected -> INFEASIBLE / minimum forest with allow_forest.",
            GEN_NOTE, "DESIGN.md 4/C13"),
    "C14": ("symbolic execution of strongly_connected_components/topological_sort/condense (+_edges python variants) with every potential arc a symbolic Bool read through the neighbour callback (solver-enumerated digraphs); oracle = transitive closure",
            "Bounded model checking (exhaustive, solver-driven, of a discrete structure): every digraph on 3 nodes (all node orders) and every loop-free digraph on 4 nodes: SCCs are the mutual-reachability classes listed sinks-first, topological order iff acyclic, condensation edges exactly as defined; outside-neighbour and duplicate variants.",
            GEN_NOTE + " No numeric symbolic dimension in this property.", "DESIGN.md 4/C14"),
    "C15": ("symbolic execution of articulation_points/bridges/kcore (edge presence symbolic, k symbolic), pagerank (damping, tol symbolic Reals; polynomial obligations via z3 nlsat), louvain (resolution symbolic Real)",
            "Bounded model checking: every undirected graph on 4-5 nodes vs. definition by deletion; PageRank on every loop-free 3-node digraph + named graphs (incl. neighbour lists pointing outside the node set) for ALL damping in (0,1), tol>=1e-12, 2 iterations: non-negative, sums to 1, OPTIMAL satisfies the PageRank equation within n*tol; Louvain for ALL resolution>0: partition of the node set, reported modularity equals the partition's.",
            GEN_NOTE, "DESIGN.md 4/C15"),
    "C16": ("symbolic execution of solve_knapsack (values unbounded symbolic Reals, weights/capacity enumerated) and solve_bin_pack (sizes and capacity symbolic Reals); optimal-label and 11/9 bound against explicit subset / set-partition enumeration via z3",
            "Bounded model checking: knapsack n<=3 exhaustive over weights 0..3, capacity 0..5 (+sampled n=4, decimal grid, adversarial and dyadic exact-fill decimals) for ALL value vectors; bin packing n<=4, all four heuristics and aliases, ALL sizes/capacities.",
            GEN_NOTE, "DESIGN.md 4/C16"),
    "C17": ("symbolic execution of solve_cg (cutting stock and custom pricing) with the demand vector symbolic (Ints 0..8) and of solve_bp with solver-enumerated demand vectors; true minimum = z3 query for a cheaper non-negative integer combination of the full enumerated pattern set",
            "Bounded model checking: 14 cutting-stock instances (width<=10, <=3 sizes) for EVERY demand vector in 0..8 (cg) / 0..3 (bp), plus explicit column pools: patterns fit, every demand met, objective = rolls, OPTIMAL = true minimum.",
            GEN_NOTE + " solve_bp demand vectors are enumerated, not symbolic (weaker mode).", "DESIGN.md 4/C17"),
    "C18": ("symbolic execution of solve_job_shop (durations unbounded symbolic Ints, symbolic random stream) and, inductively, of each exported VRPTW destroy/repair operator from every bookkeeping-valid state with symbolic distances/demands/capacities/windows/service times; vrp_objective against the documented weighted sum",
            "Bounded model checking: job shop shapes up to 3x2/2x3: every operation scheduled, end-start = duration, job order, machine exclusivity, objective = latest end, for ALL durations and random choices (depth-first to a path cap). VRPTW: ONE inductive step per operator from EVERY valid state of 3 customers (one 2-vehicle) x 2 vehicles: never lost / never both / never twice on a route, arrival times consistent, input not mutated; objective identity.",
            GEN_NOTE + " solve_vrptw end-to-end is covered only through its operators (invariant preserved by each) and objective.", "DESIGN.md 4/C18"),
    "C19": ("symbolic execution of anneal/tabu_search/lns/alns/evolve/differential_evolution/particle_swarm/nelder_mead with the objective value of every point an unbounded SMT Real and the random stream symbolic (all accept/reject and selection sequences); z3 decides the bookkeeping obligations per path",
            "Bounded model checking: for EVERY objective function and EVERY random decision sequence within the iteration bounds: reported objective = f(returned point) in the user's sign, at least as good as every evaluated point, evaluations = number of calls, maximise f mirrors minimise -f, bounded solvers stay in bounds; reproducibility by a native double run per path witness. anneal/lns/alns exhausted; tabu/evolve/DE/PSO/NM depth-first to a path cap.",
            GEN_NOTE + " powell/bfgs/lbfgs/bayesian_opt not covered.", "DESIGN.md 4/C19"),
    "C20": ("inductive step from an arbitrary valid state, symbolic execution of UnionFind/FenwickTree methods with z3 (parents, ranks, array contents, operands symbolic)",
            "Bounded model checking of the real methods: for every n in the bound, every state satisfying the representation invariant, every operand and every value, z3 proves RI is preserved and the answer equals the abstract partition / array answer; base case (constructors) proved for the same n. One inductive step covers histories of any length.",
            GEN_NOTE + " n bounded (UnionFind <=4 quick/<=5 thorough, Fenwick <=8/<=16).",
            "DESIGN.md 4/C20"),
}

NOT_APPLICABLE = {}

ALL = ["C%02d" % i for i in range(1, 21)]


def main():
    checks = []
    for pid in ALL:
        if pid not in CLAIMED:
            continue
        tech, text, note, ref = CLAIMED[pid]
        checks.append({
            "property_id": pid,
            "quick_cmd": "./check %s --tier quick" % pid,
            "thorough_cmd": "./check %s --tier thorough" % pid,
            "evidence_file": "/verif/evidence/%s.json" % pid,
            "replay_cmd_template": "./check %s --replay {path}" % pid,
            "engine": "symx",
            "level_claimed": {"category": "model_checking", "text": text, "design_ref": ref},
            "level_note": note,
            "technique": tech,
        })
    na = []
    for pid in ALL:
        if pid in CLAIMED:
            continue
        na.append({"property_id": pid, "reason": NOT_APPLICABLE.get(pid, "check not built yet in this round (designed in DESIGN.md section 4); not claimed until its check runs clean on the unchanged tree")})
    hooks_commits = []
    hp = os.path.join(HERE, "hooks_commits.txt")
    if os.path.exists(hp):
        hooks_commits = [l.split()[0] for l in open(hp) if l.strip() and not l.startswith("#")]
    man = {
        "version": 1,
        "setup_cmd": "./setup.sh",
        "hooks": {
            "guard": "SOLVOR_VERIF",
            "enable": "export SOLVOR_VERIF=1 before importing solvor (./check does this); nothing is compiled",
            "baseline_off_cmd": "cd /repo && env -u SOLVOR_VERIF /venv/bin/python -m pytest -ra -q -p no:cacheprovider --timeout=900 --continue-on-collection-errors",
            "source_commits": hooks_commits,
            "add_only": True,
        },
        "engines": [{
            "name": "symx",
            "path": "/verif/symx",
            "serves_properties": sorted(CLAIMED),
            "kind_free_text": TECH,
        }],
        "checks": checks,
        "not_applicable": na,
        "notes": "All checks: ./check <ID> --tier quick|thorough; exit 0 held / 1 VIOLATION (replayed natively) / 3 HARNESS-ERROR. "
                 "Known findings: /verif/known_findings.json (read-only at run time).",
    }
    with open(os.path.join(HERE, "MANIFEST.json"), "w") as f:
        json.dump(man, f, indent=1)
    try:
        import jsonschema
        jsonschema.validate(man, json.load(open("/root/.vp/MANIFEST.schema.json")))
        print("MANIFEST.json valid; claimed:", sorted(CLAIMED))
    except ImportError:
        print("written (jsonschema not available)")


if __name__ == "__main__":
    main()

#!/usr/bin/env python3
"""Verify a seeded mutant and run checks against it.

usage: seedtest.py <seed-name> <src-dir> <property> [--tier quick] [--tests "tests/solvors/test_x.py ..."]
Copies patch.diff/demo.py/notes.md into /verif/seeded/<seed-name>/, confirms the demo passes on the clean tree and fails with the
patch, optionally runs the named test files with the patch, runs ./check <property>, reverts /repo, writes meta.json.
"""
import json
import os
import shutil
import subprocess
import sys
import time

VERIF = os.path.dirname(os.path.dirname(os.path.abspath(__file__)))


def sh(cmd, **kw):
    return subprocess.run(cmd, shell=True, capture_output=True, text=True, **kw)


def main():
    name, src, prop = sys.argv[1:4]
    tier = "quick"
    tests = None
    args = sys.argv[4:]
    while args:
        a = args.pop(0)
        if a == "--tier":
            tier = args.pop(0)
        elif a == "--tests":
            tests = args.pop(0)
    dst = os.path.join(VERIF, "seeded", name)
    os.makedirs(dst, exist_ok=True)
    for f in ("patch.diff", "demo.py", "notes.md"):
        if os.path.exists(os.path.join(src, f)) and os.path.abspath(src) != os.path.abspath(dst):
            shutil.copy(os.path.join(src, f), os.path.join(dst, f))
    assert sh("git -C /repo status --porcelain").stdout.strip() == "", "repo not clean"
    meta = {"property": prop, "name": name}
    r = sh("cd /tmp && PYTHONPATH=/repo /venv/bin/python %s/demo.py" % dst, timeout=900)
    meta["demo_on_clean_tree_exit"] = r.returncode
    ap = sh("git -C /repo apply %s/patch.diff" % dst)
    if ap.returncode != 0:
        print("patch does not apply:", ap.stderr)
        meta["applies"] = False
        json.dump(meta, open(os.path.join(dst, "meta.json"), "w"), indent=1)
        return 2
    try:
        r = sh("cd /tmp && PYTHONPATH=/repo /venv/bin/python %s/demo.py" % dst, timeout=900)
        meta["demo_with_patch_exit"] = r.returncode
        meta["demo_with_patch_tail"] = (r.stdout + r.stderr)[-400:]
        if tests:
            r = sh("cd /repo && /venv/bin/python -m pytest -q -p no:cacheprovider --timeout=900 %s 2>&1 | tail -3" % tests, timeout=3000)
            meta["tests_with_patch"] = r.stdout.strip().splitlines()[-1:] if r.stdout.strip() else []
        t0 = time.time()
        r = sh("cd %s && ./check %s --tier %s" % (VERIF, prop, tier), timeout=7200)
        meta["check_cmd"] = "./check %s --tier %s" % (prop, tier)
        meta["check_exit"] = r.returncode
        meta["check_wall_s"] = round(time.time() - t0, 1)
        lines = [l for l in r.stdout.splitlines() if l.startswith(("VIOLATION", "HARNESS-ERROR", "KNOWN-FINDING"))]
        meta["check_lines"] = lines[:6]
        meta["detected"] = r.returncode == 1 and any(l.startswith("VIOLATION") for l in lines)
    finally:
        sh("git -C /repo checkout -- .")
        # the run above rewrote the evidence file from a patched tree: put the committed (clean-tree) evidence back
        sh("git -C %s checkout -- evidence/%s.json" % (VERIF, prop))
    notes = os.path.join(dst, "notes.md")
    if os.path.exists(notes):
        meta["needs_to_manifest"] = open(notes).read()[:1500]
    json.dump(meta, open(os.path.join(dst, "meta.json"), "w"), indent=1)
    print(json.dumps({k: meta[k] for k in meta if k not in ("needs_to_manifest",)}, indent=1))
    return 0


if __name__ == "__main__":
    sys.exit(main())

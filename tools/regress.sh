#!/bin/bash
# tools/regress.sh [seed-name ...]   (default: every directory under seeded/)
# Mutation regression: for each kept seeded change, apply it to a scratch worktree of /repo (never to /repo itself), run the property's
# quick check against that worktree (SOLVOR_REPO / PYTHONPATH / VERIF_OUT point away from /repo and /verif/evidence), and report whether a
# VIOLATION was raised. The scratch worktree and output directory are removed at the end.
cd "$(dirname "$0")/.."
VERIF=$(pwd)
W=$(mktemp -d /tmp/regress_XXXXXX)
git -C /repo worktree add -q --detach "$W/repo" HEAD || exit 2
cp /repo/solvor/_solvor_rust*.so "$W/repo/solvor/" 2>/dev/null
names=("$@"); [ ${#names[@]} -eq 0 ] && names=($(ls seeded | grep -v README))
miss=0
for name in "${names[@]}"; do
  prop=$(python3 -c "import json;print(json.load(open('$VERIF/seeded/$name/meta.json'))['property'])")
  if python3 -c "import json,sys;sys.exit(0 if json.load(open('$VERIF/seeded/$name/meta.json')).get('superseded') else 1)"; then echo "$name $prop SUPERSEDED (skipped)"; continue; fi
  git -C "$W/repo" apply "$VERIF/seeded/$name/patch.diff" || { echo "$name APPLY-FAIL"; miss=1; continue; }
  t0=$(date +%s)
  out=$(SOLVOR_REPO="$W/repo" PYTHONPATH="$W/repo" VERIF_OUT="$W/out" ./check "$prop" --tier "${TIER:-quick}" 2>&1); rc=$?
  git -C "$W/repo" checkout -q -- .
  nv=$(echo "$out" | grep -c "^VIOLATION")
  [ "$rc" = 1 ] && [ "$nv" -gt 0 ] && verdict=DETECTED || { verdict=MISSED; miss=1; }
  echo "$name $prop $verdict rc=$rc violations=$nv wall=$(( $(date +%s) - t0 ))s $(echo "$out" | grep -E '^HARNESS' | head -1)"
done
git -C /repo worktree remove --force "$W/repo"; git -C /repo worktree prune; rm -rf "$W"
exit $miss

"""C01 - every assignment solve_sat returns is a model (and enumerated models are distinct)."""
from checks import sat_common as C
from checks.sat_common import h_sat, params_from_json  # noqa: F401

PROPERTY = "C01"
FILES = C.FILES
FUNCTIONS = C.FUNCTIONS
STUBS = C.STUBS
ASSUMPTIONS = C.ASSUMPTIONS
BOUNDS = {
    "quick": "CNF structural: every set of <=3 distinct-variable clauses over 3 variables (2951 formulas, canonical order), every set "
             "of <=2 such clauses x 3 assumption lists, VERIF_SEED-sampled: 300 3-clause sets x assumptions, 300 'dirty' CNFs "
             "(duplicate literals, tautologies, unsorted, 2-5 clauses), 80 threshold CNFs on 5-7 variables (half satisfiable, budgets unbounded and capped at 24), 48 planted-model 3-SAT at ratio 4.2 on 6-8 variables, "
             "pigeonhole PHP(3,2) PHP(4,3) PHP(3,3) PHP(4,4) and the 18-variable cumulative CNF, and a reduce_db pass with the "
             "threshold lowered to 2; solution_limit>=1, luby_factor>=1, max_conflicts>=0, max_restarts>=0 are UNBOUNDED symbolic Ints",
    "thorough": "quick with 10x the seeded samples, plus every set of 4 clean clauses over 3 variables (14950 formulas), PHP(5,4)",
}
OUTSIDE = "formulas outside the enumerated/sampled/named sets (structure is enumerated, not symbolic); assumptions on variables that do not occur in the formula"
GOALS = {"quick": ["conflict_learned", "blocking_clause", "two_conflicts"], "thorough": ["conflict_learned", "blocking_clause", "two_conflicts"]}
OPTS = {"quick": {"path_wall": 10.0}, "thorough": {"path_wall": 12.0}}


def items(tier, rng):
    return C.build_items(tier, rng, "C01")


def _only_empty_clauses(cex):
    """The recorded finding: the formula is a non-empty list of EMPTY clauses and there are no assumptions (n_vars == 0 early return)."""
    ob = cex.get("observed") or {}
    cl = ob.get("clauses")
    return isinstance(cl, list) and len(cl) > 0 and all(len(c) == 0 for c in cl) and not ob.get("assumptions")


KNOWN_CLASSES = {"only_empty_clauses": _only_empty_clauses}

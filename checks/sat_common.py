"""Shared harness for C01 / C02 (solve_sat).

The CNF and the assumption list are structural (finite, exhaustively enumerated inside the bound or taken from a
named / seeded family); the four tuning parameters solution_limit, luby_factor, max_conflicts, max_restarts are
UNBOUNDED SMT Ints, so one symbolic run of the real solve_sat decides whole regions of budget space.
z3 is the independent oracle: satisfiability of F & assumptions, entailment of every learned clause (hook).
"""

import importlib
import itertools
import zlib
import types

import z3

from symx.core import AND, OR, NOT, SNum

FILES = ["solvor/sat.py", "solvor/types.py"]
FUNCTIONS = ["solvor.sat.solve_sat (incl. nested propagate/analyze/unassign_to/reduce_db/pick_var)", "solvor.sat.luby",
             "solvor.sat.BinaryImplications"]
STUBS = ["solvor.sat._verif_sink := harness event list (guarded hook, SOLVOR_VERIF=1)",
         "reduce_db sub-check: the constant 2000 inside the nested reduce_db code object is replaced by 2 in an in-memory copy "
         "of solve_sat (assumes behaviour is uniform in the threshold)"]
ASSUMPTIONS = [
    "literals are non-zero ints (documented input); assumptions may mention variables that occur in no clause",
    "oracle: z3 on the propositional formula (independent of solvOR)",
    "hang detection: a path that does not return within the wall budget is replayed natively with a timeout and only then reported",
]

CLEAN3 = None


def clean_clauses(n):
    """All clauses over vars 1..n with distinct variables, literals in increasing variable order."""
    out = []
    for k in range(1, min(3, n) + 1):
        for vs in itertools.combinations(range(1, n + 1), k):
            for signs in itertools.product((1, -1), repeat=k):
                out.append(tuple(v * sg for v, sg in zip(vs, signs)))
    return out


def zlit(l, xs):
    return xs[abs(l)] if l > 0 else z3.Not(xs[abs(l)])


def zclause(c, xs):
    if len(c) == 0:
        return z3.BoolVal(False)
    return z3.Or(*[zlit(l, xs) for l in c])


def oracle_sat(clauses, assumptions, extra=(), also_vars=()):
    nv = max([abs(l) for c in clauses for l in c] + [abs(l) for l in assumptions] + [abs(l) for c in extra for l in c] + list(also_vars) + [1])
    xs = {v: z3.Bool("x%d" % v) for v in range(1, nv + 1)}
    sol = z3.Solver()
    for c in clauses:
        sol.add(zclause(c, xs))
    for c in extra:
        sol.add(zclause(c, xs))
    for l in assumptions:
        sol.add(zlit(l, xs))
    return sol, xs


def patched_solve_sat(mod, threshold):
    """Copy of solve_sat whose nested reduce_db fires at `threshold` learned clauses instead of 2000."""
    f = mod.solve_sat
    code = f.__code__
    found = [False]

    def rewrite(co):
        consts = []
        for c in co.co_consts:
            if isinstance(c, types.CodeType):
                c = rewrite(c)
            elif co.co_name == "reduce_db" and c == 2000 and type(c) is int:
                c = threshold
                found[0] = True
            consts.append(c)
        return co.replace(co_consts=tuple(consts))

    new = rewrite(code)
    if not found[0]:
        return None
    g = types.FunctionType(new, f.__globals__, f.__name__, f.__defaults__, f.__closure__)
    g.__kwdefaults__ = f.__kwdefaults__
    return g


def model_ok(model, clauses, assumptions):
    """None if `model` (dict var->bool) satisfies everything, else a description."""
    if not isinstance(model, dict):
        return "not a dict: %r" % (model,)
    for c in clauses:
        if not any((abs(l) in model) and (model[abs(l)] == (l > 0)) for l in c):
            # a variable missing from the model may take either value: the clause must hold for all extensions
            return "clause %r false (or not forced true) under %r" % (list(c), model)
    for l in assumptions:
        if abs(l) not in model or model[abs(l)] != (l > 0):
            return "assumption %d violated by %r" % (l, model)
    return None


def h_sat(s, formulas, assumption_sets, which, reduce_at=None, sym_budgets=True, max_solution_limit=None, budget_cap=None):
    mod = importlib.import_module("solvor.sat")
    fi = s.choice("formula", len(formulas))
    clauses = [tuple(c) for c in formulas[fi]]
    ai = s.choice("assumptions", len(assumption_sets))
    assumptions = assumption_sets[ai]
    if assumptions == "first_var_neg" or assumptions == ("first_var_neg",):  # formula-relative assumption (sparse numbering family)
        vs = sorted({abs(l) for c in clauses for l in c})
        assumptions = [-vs[0]] + ([vs[-1]] if len(vs) > 2 else [])
    assumptions = list(assumptions)
    # (assumptions may name variables that occur in no clause: they are simply fixed - "all assumption lists")
    solution_limit = s.int("solution_limit", 1, max_solution_limit)
    luby_factor, max_conflicts, max_restarts = 100, 100000, 10000
    if sym_budgets is True or sym_budgets == "all":
        luby_factor = s.int("luby_factor", 1, None)
        max_conflicts = s.int("max_conflicts", 0, budget_cap)
        max_restarts = s.int("max_restarts", 0, budget_cap)
    elif sym_budgets == "conflicts":
        max_conflicts = s.int("max_conflicts", 0, None)
    elif sym_budgets == "restarts":
        luby_factor = s.int("luby_factor", 1, 4)
        max_restarts = s.int("max_restarts", 0, None)
    events = []
    s.patch(mod, _verif_sink=events.append, _VERIF=True)
    fn = mod.solve_sat
    if reduce_at is not None:
        fn = patched_solve_sat(mod, reduce_at)
        if fn is None:
            s.notes["reduce_db_anchor_missing"] = True
            s.cut("reduce_db anchor (constant 2000) not found")
    inp = [list(c) for c in clauses]
    res = fn(inp, assumptions=list(assumptions), max_conflicts=max_conflicts, max_restarts=max_restarts,
             solution_limit=solution_limit, luby_factor=luby_factor)
    Status = importlib.import_module("solvor.types").Status
    status = res.status
    learned = [e for e in events if e[0] == "learned"]
    n_learned = sum(1 for e in learned if not e[2])
    n_block = sum(1 for e in learned if e[2])
    ticks = sum(1 for e in events if e[0] == "tick")
    if n_learned:
        s.goal("conflict_learned")
    if n_block:
        s.goal("blocking_clause")
    if n_learned >= 2:
        s.goal("two_conflicts")
    s.observe("clauses", [list(c) for c in clauses])
    s.observe("assumptions", list(assumptions))
    s.observe("status", int(status))
    s.observe("solution", None if res.solution is None else {int(k): bool(v) for k, v in res.solution.items()})
    s.observe("n_solutions", None if res.solutions is None else len(res.solutions))

    sols = []
    if res.solution is not None:
        sols.append(("solution", res.solution))
    if res.solutions is not None:
        for i, m in enumerate(res.solutions):
            sols.append(("solutions[%d]" % i, m))

    if which == "C01":
        for nm, m in sols:
            why = model_ok(m, clauses, assumptions)
            s.check(why is None, "model_satisfies_formula_and_assumptions", detail={"which": nm, "why": why})
        if res.solutions is not None:
            keys = [tuple(sorted(m.items())) for m in res.solutions]
            s.check(len(set(keys)) == len(keys), "solutions_pairwise_distinct", detail=[dict(k) for k in keys])
            s.check(len(keys) <= solution_limit, "no_more_solutions_than_requested")
            if res.solution is not None and keys:
                s.check(any(res.solution == m for m in res.solutions), "solution_is_one_of_solutions")
        return

    # ---- C02
    sol, xs = oracle_sat(clauses, assumptions)
    truth = sol.check()
    assert truth in (z3.sat, z3.unsat)
    s.goal("oracle_sat" if truth == z3.sat else "oracle_unsat")
    s.check(status in (Status.OPTIMAL, Status.INFEASIBLE, Status.MAX_ITER), "status_is_one_of_three", detail=str(status))
    if status == Status.INFEASIBLE:
        s.check(truth == z3.unsat, "infeasible_only_if_no_model", detail={"clauses": clauses, "assumptions": assumptions})
        s.check(res.solution is None, "infeasible_has_no_solution")
    if res.solution is not None:
        s.check(truth == z3.sat and model_ok(res.solution, clauses, assumptions) is None, "no_model_for_unsat_formula")
    if status == Status.OPTIMAL:
        s.check(res.solution is not None, "optimal_carries_a_model")
    if truth == z3.sat and status != Status.MAX_ITER:
        s.check(res.solution is not None and status == Status.OPTIMAL, "model_returned_when_one_exists")
    if status == Status.MAX_ITER:
        s.goal("max_iter")
        # conflicts <= learned+1 and restarts <= learned on this path: budgets above that were NOT exhausted
        s.check(NOT(AND(max_conflicts > n_learned + 1, max_restarts > n_learned)), "max_iter_only_when_budget_exhausted",
                detail={"learned": n_learned})
    # every learned clause is implied by the formula plus the blocking clauses added before it
    blocking = []
    for (_t, cl, is_block) in learned:
        if is_block:
            blocking.append(tuple(cl))
            continue
        q, qx = oracle_sat(clauses, [], extra=blocking, also_vars=[abs(l) for l in cl] + [abs(l) for l in assumptions])
        for l in cl:
            q.add(z3.Not(zlit(l, qx)))
        r = q.check()
        s.check(r == z3.unsat, "learned_clause_entailed", detail={"clause": list(cl), "blocking_before": blocking})


# ---------------------------------------------------------------------------------------------- families
def php(p, h):
    """Pigeonhole: p pigeons in h holes (unsat iff p > h)."""
    v = lambda i, j: i * h + j + 1
    cl = [tuple(v(i, j) for j in range(h)) for i in range(p)]
    for j in range(h):
        for a in range(p):
            for b in range(a + 1, p):
                cl.append((-v(a, j), -v(b, j)))
    return cl


def cumulative18():
    """The 18-variable CNF of the property text: three length-3 tasks, window 0..5, unit capacity (unsat)."""
    try:
        cp = importlib.import_module("solvor.cp")
        enc = importlib.import_module("solvor.cp_encoder")
        m = cp.Model()
        starts = [m.int_var(0, 5, "s%d" % i) for i in range(3)]
        m.add(m.cumulative(starts, [3, 3, 3], [1, 1, 1], 1))
        e = enc.SATEncoder(m)
        captured = {}
        sat = importlib.import_module("solvor.sat")
        orig = enc.solve_sat

        def fake(clauses, **kw):
            captured["c"] = [tuple(c) for c in clauses]
            raise KeyboardInterrupt

        enc.solve_sat = fake
        try:
            e.solve()
        except KeyboardInterrupt:
            pass
        finally:
            enc.solve_sat = orig
        return captured.get("c")
    except Exception:
        return None


def random_cnf(rng, n, m, dirty=False):
    cl = []
    for _ in range(m):
        k = rng.choice([1, 2, 2, 3, 3, 3])
        if dirty:
            lits = [rng.choice([1, -1]) * rng.randint(1, n) for _ in range(k)]
        else:
            vs = rng.sample(range(1, n + 1), min(k, n))
            lits = [v * rng.choice([1, -1]) for v in vs]
        cl.append(tuple(lits))
    return cl


def chunks(lst, k):
    return [lst[i:i + k] for i in range(0, len(lst), k)]


def build_items(tier, rng, which):
    out = []
    q = tier == "quick"
    c3 = clean_clauses(3)
    ASS3 = [(), (-1,), (1, -2), (3,)]
    spread0 = zlib.crc32(repr(rng.getstate()[1][:8]).encode())

    def add(name, fam, ass, k, **extra):
        for ch in chunks(fam, k):
            p = {"formulas": ch, "assumption_sets": ass, "which": which}
            p.update(extra.get("params", {}))
            it = {"name": name, "harness": "h_sat", "params": p}
            it.update({a: b for a, b in extra.items() if a != "params"})
            if "max_paths" in it:  # capped tree: scatter the explored paths over all depths (Explorer.spread); seed tied to VERIF_SEED without consuming rng
                it["spread"] = zlib.crc32(("%s/%d" % (name, len(out))).encode()) ^ spread0
            out.append(it)

    sets1 = [list(cs) for cs in itertools.combinations(c3, 1)]
    sets2 = [list(cs) for cs in itertools.combinations(c3, 2)]
    sets3 = [list(cs) for cs in itertools.combinations(c3, 3)]
    lim = {"params": {"max_solution_limit": 4}} if q else {}
    # (e) named family first (longest items)
    named = [php(3, 2), php(4, 3), php(3, 3)] + ([] if q else [php(4, 4), php(5, 4)])
    for mode in ("none", "conflicts", "restarts"):
        add("named_" + mode, named, [(), (-1,)], 1, params={"max_solution_limit": 2, "sym_budgets": mode}, path_wall_s=20,
            max_paths=400)
    cu = cumulative18()
    if cu:
        add("cumulative18_none", [cu], [(), (-1,)], 1, params={"max_solution_limit": 2, "sym_budgets": "none"}, path_wall_s=20)
        add("cumulative18_conflicts", [cu], [()], 1, params={"max_solution_limit": 1, "sym_budgets": "conflicts"},
            path_wall_s=20, max_paths=24 if q else 400)
    # (d) larger formulas near the satisfiability threshold so that learning, backjumping and restarts fire; half of them satisfiable
    # (balanced with the z3 oracle while sampling: a wrong INFEASIBLE / a missed model can only show on satisfiable inputs)
    big = []
    want_sat = want_unsat = (40 if q else 750)
    tries = 0
    while (want_sat or want_unsat) and tries < 20000:
        tries += 1
        n = rng.choice([5, 6, 7])
        m = rng.randint(n + 2, 3 * n)
        f = []
        for _ in range(m):
            k = rng.choice([2, 2, 3, 3, 3])
            vs = rng.sample(range(1, n + 1), k)
            f.append(tuple(v * rng.choice([1, -1]) for v in vs))
        sol, _xs = oracle_sat(f, [])
        is_sat = sol.check() == z3.sat
        if is_sat and want_sat:
            want_sat -= 1
            big.append(f)
        elif (not is_sat) and want_unsat:
            want_unsat -= 1
            big.append(f)
    add("threshold", big, [(), (1, -2)], 2, params={"max_solution_limit": 2})
    # the same formulas with the two budgets symbolic but bounded (0..24): every path ends within the budgets, so verdicts stay
    # reachable even if a change makes the search spin until a budget stops it
    add("threshold_capped", big[: (40 if q else 600)], [()], 2, params={"max_solution_limit": 1, "budget_cap": 24}, max_paths=150, path_wall_s=25)
    # (d') planted-model 3-SAT at the threshold clause ratio 4.2 on 6-8 variables: satisfiable by construction, hard enough that
    # learning, backjumps above level 0 and restarts interleave
    planted = []
    for _ in range(48 if q else 600):
        n = rng.choice([6, 7, 8])
        model = {v: rng.random() < 0.5 for v in range(1, n + 1)}
        f = []
        while len(f) < int(4.2 * n):
            vs = rng.sample(range(1, n + 1), 3)
            c = tuple(v * rng.choice([1, -1]) for v in vs)
            if any((l > 0) == model[abs(l)] for l in c):
                f.append(c)
        planted.append(f)
    add("planted_capped", planted, [()], 2, params={"max_solution_limit": 1, "budget_cap": 24}, max_paths=150, path_wall_s=25)
    # (a) exhaustive small sets
    add("clean3_le2", sets1 + sets2, [()], 12, **lim)
    add("clean3_x3", rng.sample(sets3, 400) if q else sets3, [()], 12 if q else 40, **lim)
    # (b) with assumptions
    add("clean3_1_assume", sets1, ASS3[1:], 9, **lim)
    add("clean3_2_assume", rng.sample(sets2, 120) if q else sets2, ASS3[1:], 8 if q else 30, **lim)
    if not q:
        add("clean3_3_assume", rng.sample(sets3, 1500), ASS3[1:], 30)
    # (c) dirty clauses: duplicate literals, tautologies, unsorted, repeated clauses
    dirty = [random_cnf(rng, 3, rng.randint(2, 5), dirty=True) for _ in range(150 if q else 3000)]
    add("dirty3", dirty, [(), (-2,)], 10 if q else 40, **lim)
    # (c0) degenerate formulas: no clauses, empty clauses (alone and among others), with assumptions on variables no clause mentions
    degenerate = [[], [()], [(), ()], [(1,), ()], [(1, 2), (), (3,)], [(1,)], [(1, 2)], [(-1,), (1, 2)]]
    add("degenerate", degenerate, [(), (2,), (-3, 1), (1, -1), (5,)], 4, params={"max_solution_limit": 3})
    # (c') sparse variable numbering ("any variable numbering"): the same kind of formulas renumbered through an injective map with gaps
    gapped = []
    for _ in range(60 if q else 1200):
        n = rng.choice([3, 4, 5])
        f = random_cnf(rng, n, rng.randint(3, 3 * n))
        ren, nxt = {}, 0
        for v in range(1, n + 1):
            nxt += rng.choice([1, 1, 2, 3, 7])
            ren[v] = nxt
        perm = list(ren.values())
        rng.shuffle(perm)  # and not order preserving
        ren = dict(zip(range(1, n + 1), perm))
        gapped.append([tuple((1 if l > 0 else -1) * ren[abs(l)] for l in c) for c in f])
    add("gapped", gapped, [()], 6 if q else 40, params={"max_solution_limit": 3})
    add("gapped_assume", [g for g in gapped[: (24 if q else 400)]], ["first_var_neg"], 6 if q else 40, params={"max_solution_limit": 2})
    # (c'') long enumerations: few clauses over 5-6 (sparsely numbered) variables, so dozens of models; solution_limit symbolic up to 64 - the
    # heap / phase / blocking-clause bookkeeping across many found models is what is exercised (every returned model must still be total)
    enum = []
    for _ in range((90 if q else 900) if which == "C01" else 0):  # (C01 only: the claim about every entry of the solutions tuple)
        n = rng.choice([5, 6])
        names = sorted(rng.sample(range(1, 9), n))
        f = []
        for _c in range(rng.randint(2, 4)):
            k = rng.choice([3, 3, 4])
            vs = rng.sample(names, k)
            f.append(tuple(v * rng.choice([1, -1]) for v in vs))
        enum.append(f)
    if enum:
        # named anchors: two clauses sharing their variables (stale heap entries matter), and an implication chain
        enum += [[(-5, 3, 6), (1, -5, -3, 6)], [(-1, 2), (-2, 3), (-3, 4), (4, 5, 6)], [(1, 2, 3), (-1, -2, 4), (11, 12)]]
        add("enumerate", enum, [()], 1, params={"max_solution_limit": 64, "sym_budgets": "none"}, path_wall_s=25)
    # (f) reduce_db with the threshold lowered to 2 learned clauses
    red = [random_cnf(rng, rng.choice([4, 5, 6, 7]), rng.randint(5, 14)) for _ in range(40 if q else 600)] + [php(3, 2), php(4, 3)]
    add("reduce_db", red, [()], 1 if q else 4, params={"reduce_at": 2, "max_solution_limit": 10, "sym_budgets": "restarts"},
        max_paths=150)
    if not q:
        fam4 = [list(cs) for cs in itertools.combinations(c3, 4)]
        add("clean3x4", fam4, [()], 60, params={"max_solution_limit": 3})
    return out


def params_from_json(p):
    p = dict(p)
    p["formulas"] = [[tuple(c) for c in f] for f in p["formulas"]]
    p["assumption_sets"] = [a if isinstance(a, str) else tuple(a) for a in p["assumption_sets"]]
    return p

"""C07 - exact cover (dancing links).

Every matrix cell is a symbolic Bool read by the real _build_links (so every 0/1 matrix of the shape is visited, solver-enumerated);
max_solutions / max_iter are symbolic Ints (status mapping decided for all limit values per matrix).
Oracle: z3 enumerates the exact covers of the concrete matrix of each path (PbEq / PbLe over one Bool per row).
"""

import importlib
import itertools

import z3

from symx.core import AND, OR, NOT, IMPLIES, ITE, IFF, SNum, SBool, ssum

PROPERTY = "C07"
FILES = ["solvor/dlx.py", "solvor/types.py"]
FUNCTIONS = ["solvor.dlx.solve_exact_cover (incl. nested search)", "solvor.dlx._build_links", "solvor.dlx._cover", "solvor.dlx._uncover"]
BOUNDS = {
    "quick": "matrices without rows / without columns; every 0/1 matrix of shapes 1x1..3x3, 2x4, 4x2, 4x3 (cells symbolic), every secondary-column subset for <=3 columns (3 subsets "
             "for 4), find_all on/off, default / string / 1-based / reversed integer column labels; max_solutions>=0 and max_iter>=0 symbolic Ints on shapes up to 3x3; "
             "cover/uncover inverse law (single and nested LIFO pair) on every matrix up to 3x3 and 4x3",
    "thorough": "adds 3x4, 4x4 (all 65536 matrices, no secondary / last column secondary), 5x3, symbolic limits up to 3x4",
}
OUTSIDE = "matrices larger than 4x4 / 5x3; ragged matrices"
ASSUMPTIONS = ["oracle: z3 model enumeration of exact covers (rows without a primary 1 forced out)",
               "max_solutions=0 means 'no limit' (the code tests truthiness)"]
STUBS = []
GOALS = {"quick": ["infeasible", "find_all.multiple", "secondary.used", "max_solutions.cut", "max_iter.cut", "cover.inverse"],
         "thorough": ["infeasible", "find_all.multiple", "max_solutions.cut", "max_iter.cut"]}
OPTS = {"quick": {"path_wall": 20.0}}


def exact_covers(matrix, sec_idx):
    r = len(matrix)
    c = len(matrix[0]) if r else 0
    xs = [z3.Bool("row%d" % i) for i in range(r)]
    sol = z3.Solver()
    prim = [j for j in range(c) if j not in sec_idx]
    for j in range(c):
        rows = [xs[i] for i in range(r) if matrix[i][j]]
        if j in sec_idx:
            if rows:
                sol.add(z3.PbLe([(x, 1) for x in rows], 1))
        else:
            if rows:
                sol.add(z3.PbEq([(x, 1) for x in rows], 1))
            else:
                sol.add(z3.BoolVal(False))
    for i in range(r):
        if not any(matrix[i][j] for j in prim):
            sol.add(z3.Not(xs[i]))
    out = []
    while sol.check() == z3.sat:
        m = sol.model()
        pick = tuple(i for i in range(r) if z3.is_true(m.eval(xs[i], model_completion=True)))
        out.append(pick)
        sol.add(z3.Or([z3.Not(xs[i]) if i in pick else xs[i] for i in range(r)]))
    return set(out)


def h_dlx(s, r, c, sec, find_all, names=False, sym_limits=False, twice=False):
    Status = importlib.import_module("solvor.types").Status
    mod = importlib.import_module("solvor.dlx")
    cells = [[s.bool("m%d_%d" % (i, j)) for j in range(c)] for i in range(r)]
    matrix = [[1 if bool(cells[i][j]) else 0 for j in range(c)] for i in range(r)]  # every cell is read by _build_links anyway
    # column labels: default positions, strings, 1-based ints, reversed ints (labels that are ints but differ from positions)
    if names in (True, "str"):
        colnames = ["c%d" % j for j in range(c)]
    elif names == "onebased":
        colnames = [j + 1 for j in range(c)]
    elif names == "reversed":
        colnames = [c - 1 - j for j in range(c)]
    else:
        colnames = None
    secondary = [(colnames[j] if colnames else j) for j in sec]
    kw = {}
    max_solutions = max_iter = None
    if sym_limits:
        max_solutions = s.int("max_solutions", 0, None)
        max_iter = s.int("max_iter", 0, None)
        kw = {"max_solutions": max_solutions, "max_iter": max_iter}
    inp = [list(row) for row in matrix]
    built = {}
    orig_build = mod._build_links

    def spy_build(*a, **k):
        out = orig_build(*a, **k)
        root, headers = out[0], out[1]
        if root is not None:
            nodes = []
            for h in headers:
                nd = h.down
                while nd is not h:
                    nodes.append(nd)
                    nd = nd.down
            built["refs"] = (headers, nodes, [root])
            built["snap"] = _snapshot(headers, nodes, [root])
        return out

    s.patch(mod, _build_links=spy_build)
    res = mod.solve_exact_cover(inp, columns=colnames, secondary=secondary or None, find_all=find_all, **kw)
    s.check(inp == matrix, "input_not_modified")
    if find_all and not sym_limits and "snap" in built:
        # a complete search backtracks out of every choice: all links and column sizes are as built
        s.check(_snapshot(*built["refs"]) == built["snap"], "links_restored_after_complete_search")
    E = exact_covers(matrix, set(sec))
    st = res.status
    s.observe("matrix", matrix)
    s.observe("status", int(st))
    s.observe("solution", res.solution)

    def as_sel(t):
        return tuple(sorted(t)) if isinstance(t, tuple) and len(set(t)) == len(t) else None

    if st == Status.MAX_ITER:
        s.check(sym_limits, "max_iter_status_needs_a_limit")
        if sym_limits:
            s.check(res.iterations > max_iter, "max_iter_only_when_exhausted")
            s.goal("max_iter.cut")
        got = res.solution
        if got is not None:
            lst = got if find_all else [got]
            s.check(all(as_sel(t) in E for t in lst), "partial_results_are_exact_covers", detail=repr(lst))
        return
    if st == Status.INFEASIBLE:
        s.check(len(E) == 0 and res.solution is None, "infeasible_iff_no_cover", detail={"covers": sorted(E)})
        s.goal("infeasible")
        return
    s.check(len(E) > 0, "infeasible_iff_no_cover", detail="status %s but no cover exists" % st)
    if not find_all:
        s.check(st == Status.OPTIMAL and as_sel(res.solution) in E, "selection_is_exact_cover", detail=repr(res.solution))
        s.check(res.objective == len(res.solution), "objective_is_selection_size")
    else:
        lst = res.solution
        ok = isinstance(lst, list) and all(as_sel(t) is not None for t in lst)
        s.check(ok, "find_all_returns_list_of_selections", detail=repr(lst))
        if not ok:
            return
        sels = [as_sel(t) for t in lst]
        s.check(all(x in E for x in sels), "every_listed_selection_is_exact_cover", detail=repr(lst))
        s.check(len(set(sels)) == len(sels), "no_duplicates", detail=repr(lst))
        s.check(res.objective == len(lst), "objective_is_count")
        if st == Status.OPTIMAL:
            s.check(set(sels) == E, "optimal_find_all_lists_every_cover", detail={"missing": sorted(E - set(sels))})
        else:
            s.check(st == Status.FEASIBLE and sym_limits, "status_feasible_needs_cutoff", detail=str(st))
            if sym_limits:
                s.check(AND(max_solutions >= 1, max_solutions == len(lst)), "feasible_means_cut_at_max_solutions")
                s.goal("max_solutions.cut")
        if sym_limits:
            # a cut-off never loses covers silently: fewer than |E| listed only if max_solutions says so
            s.check(OR(len(sels) == len(E), AND(max_solutions >= 1, max_solutions <= len(sels))), "missing_covers_only_by_cutoff")
        if len(E) > 1:
            s.goal("find_all.multiple")
    if sec and any(any(matrix[i][j] for j in sec) for t in E for i in t):
        s.goal("secondary.used")
    if twice:
        res2 = mod.solve_exact_cover([list(row) for row in matrix], columns=colnames, secondary=secondary or None, find_all=find_all, **kw)
        s.check(res2.solution == res.solution and res2.status == res.status, "same_input_same_answer")


def _snapshot(headers, nodes, roots):
    out = []
    for h in headers:
        out.append((id(h.left), id(h.right), id(h.up), id(h.down), h.size))
    for nd in nodes:
        out.append((id(nd.left), id(nd.right), id(nd.up), id(nd.down), id(nd.column)))
    for rt in roots:
        out.append((id(rt.left), id(rt.right)))
    return out


def h_cover(s, r, c, sec):
    mod = importlib.import_module("solvor.dlx")
    cells = [[s.bool("m%d_%d" % (i, j)) for j in range(c)] for i in range(r)]
    matrix = [[1 if bool(cells[i][j]) else 0 for j in range(c)] for i in range(r)]
    root, headers, _ = mod._build_links(matrix, None, list(sec) or None)
    if root is None:
        s.check(False, "build_links_returned_none")
        return
    nodes = []
    for h in headers:
        nd = h.down
        while nd is not h:
            nodes.append(nd)
            nd = nd.down
    # structure checks of the construction itself
    s.check(all(h.size == sum(matrix[i][j] for i in range(r)) for j, h in enumerate(headers)), "build.column_sizes")
    sec_root = None
    for j, h in enumerate(headers):
        if j in sec:
            x = h
            for _ in range(c + 2):
                x = x.left
                if isinstance(x, mod._Node):
                    sec_root = x
                    break
    roots = [root] + ([sec_root] if sec_root is not None else [])
    base = _snapshot(headers, nodes, roots)
    bad = None
    for a in range(c):
        mod._cover(headers[a])
        mod._uncover(headers[a])
        if _snapshot(headers, nodes, roots) != base:
            bad = ("single", a)
            break
        for b in range(c):
            if b == a:
                continue
            mod._cover(headers[a])
            # column b can only be covered while still linked (as the search does): skip if a's rows removed nothing of b - still legal
            mod._cover(headers[b])
            mod._uncover(headers[b])
            mod._uncover(headers[a])
            if _snapshot(headers, nodes, roots) != base:
                bad = ("nested", a, b)
                break
        if bad:
            break
    s.check(bad is None, "cover_uncover_restore_all_links_and_sizes", detail=repr(bad))
    s.goal("cover.inverse")
    s.observe("matrix", matrix)


def items(tier, rng):
    out = []
    q = tier == "quick"
    # no rows / no columns: the empty selection is the one exact cover
    for (r0, c0) in ((0, 0), (0, 2), (2, 0)):
        for fa in (False, True):
            out.append({"name": "dlx_empty_%dx%d" % (r0, c0), "harness": "h_dlx", "params": {"r": r0, "c": c0, "sec": [], "find_all": fa, "names": False}})
    shapes = [(1, 1), (1, 2), (2, 1), (2, 2), (2, 3), (3, 2), (3, 3), (2, 4), (4, 2), (4, 3)]
    if not q:
        shapes += [(3, 4), (5, 3), (4, 4)]
    for (r, c) in shapes:
        cells = r * c
        if c <= 3:
            secs = [list(x) for k in range(c + 1) for x in itertools.combinations(range(c), k)]
        else:
            secs = [[], [c - 1], [0, 2]]
        if cells >= 16:
            secs = [[], [c - 1]]
        if q and cells >= 12:
            secs = secs[:2] if c > 3 else [[], [c - 1], [0, 1]]
        for sec in secs:
            for fa in ((True,) if (q and cells >= 12) else (False, True)):
                it = {"name": "dlx_%dx%d_s%s_%s" % (r, c, "".join(map(str, sec)), "all" if fa else "one"), "harness": "h_dlx",
                      "params": {"r": r, "c": c, "sec": sec, "find_all": fa, "names": (len(sec) % 2 == 1), "twice": cells <= 9}}
                if cells >= 8:
                    it["split"] = min(cells, 7 if cells < 16 else 11)
                out.append(it)
                if sec and c >= 2 and (cells <= 6 or (cells <= 9 and len(sec) == 1) or not q) and fa:
                    for mode in ("onebased", "reversed"):
                        it2 = {"name": "dlx_lbl_%dx%d_s%s_%s" % (r, c, "".join(map(str, sec)), mode), "harness": "h_dlx",
                               "params": {"r": r, "c": c, "sec": sec, "find_all": True, "names": mode}}
                        if cells >= 8:
                            it2["split"] = 7
                        out.append(it2)
        lim_ok = cells <= 9 or (not q and cells <= 12)
        if lim_ok:
            for sec in (secs[:1] + secs[-1:] if q else secs[:2] + secs[-1:]):
                it = {"name": "dlx_lim_%dx%d_s%s" % (r, c, "".join(map(str, sec))), "harness": "h_dlx",
                      "params": {"r": r, "c": c, "sec": sec, "find_all": True, "sym_limits": True}}
                if cells >= 6:
                    it["split"] = min(cells, 7)
                out.append(it)
                if cells <= 6:
                    out.append({"name": "dlx_lim1_%dx%d" % (r, c), "harness": "h_dlx",
                                "params": {"r": r, "c": c, "sec": sec, "find_all": False, "sym_limits": True}})
        if cells <= 9 or (r, c) == (4, 3):
            for sec in ([[], [c - 1]] if c > 1 else [[]]):
                it = {"name": "cover_%dx%d" % (r, c), "harness": "h_cover", "params": {"r": r, "c": c, "sec": sec}}
                if cells >= 8:
                    it["split"] = 6
                out.append(it)
    return out

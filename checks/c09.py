"""C09 - min_cost_flow / network_simplex / solve_assignment: feasible, integral, minimum cost, agreeing verdicts, terminating.

Topology structural; pass "cap": capacities and demand/supplies are unbounded non-negative SMT Ints with costs from a small grid;
pass "cost": costs are unbounded SMT Ints with capacities/demand from a grid (keeps cost x flow linear in both passes).
Optimality: the negated query asks z3 for a feasible integer flow that is strictly cheaper (fresh Int variables per arc).
"""

import importlib
import itertools

from symx.core import AND, OR, NOT, IMPLIES, ITE, IFF, SNum, ssum, sym_int, smin

PROPERTY = "C09"
FILES = ["solvor/flow.py", "solvor/network_simplex.py"]
FUNCTIONS = ["solvor.flow.min_cost_flow", "solvor.flow.solve_assignment", "solvor.network_simplex.network_simplex",
             "solvor.network_simplex._find_join", "solvor.network_simplex._residual"]
BOUNDS = {
    "quick": "min_cost_flow: 16 named topologies on 3-5 nodes (DAGs, cycles, anti-parallel pairs with different costs, parallel arcs, zero-cost, "
             "negative-cost arcs on DAGs), pass cap (capacities, demand unbounded Ints >= 0) and pass cost (costs unbounded Ints, non-negative unless "
             "the topology is a DAG); network_simplex: the same topologies with supply vectors derived from (source, sink, demand) and a "
             "multi-source variant (a transshipment variant in thorough), capacities/supplies symbolic, and on 4 topologies a symbolic pivot budget max_iter in 0..12; solve_assignment: every cost matrix of shapes up to 2x3 / 3x2 (3x3 in thorough) with unbounded Int entries",
    "thorough": "adds VERIF_SEED-sampled 4-5 node topologies (60), 3x4/4x3 assignment, cost pass for network_simplex",
}
OUTSIDE = "topologies outside the named/sampled sets; non-integer data; negative cycles (excluded by precondition)"
ASSUMPTIONS = ["capacities non-negative ints, costs ints, no negative-cost cycle (documented input domain)",
               "parallel arcs are distinct arcs with their own cost (the reference model); anti-parallel arcs likewise",
               "int() on symbolic supplies is modelled as truncation (solvor.network_simplex.int shadowed)"]
STUBS = ["solvor.network_simplex.int := symbolic truncation"]
GOALS = {"quick": ["ns.max_iter", "mcf.optimal", "mcf.infeasible", "ns.optimal", "ns.infeasible", "assign.optimal"], "thorough": ["mcf.optimal", "ns.optimal"]}
OPTS = {"quick": {"path_wall": 20.0, "qto": 10000}, "thorough": {"path_wall": 40.0, "qto": 20000}}


def has_antiparallel(arcs):
    S = set(arcs)
    return any((v, u) in S for (u, v) in S if u != v)


def has_parallel(arcs):
    return len(set(arcs)) < len(arcs)


def feasible_flow(s, n, arcs, caps, balance, tag):
    """Fresh integer flow g on every arc that satisfies capacities and node balances (balance[v] = required net outflow)."""
    g = [s.fresh_int("%s%d" % (tag, k)) for k in range(len(arcs))]
    conds = [AND(g[k] >= 0, g[k] <= caps[k]) for k in range(len(arcs))]
    for v in range(n):
        out = ssum(g[k] for k, (a, b) in enumerate(arcs) if a == v)
        inn = ssum(g[k] for k, (a, b) in enumerate(arcs) if b == v)
        conds.append(out - inn == balance[v])
    return g, AND(conds)


def h_mcf(s, n, arcs, source, sink, mode, fixed_costs=None, fixed_caps=None, fixed_demand=None, neg_ok=False):
    Status = importlib.import_module("solvor.types").Status
    mod = importlib.import_module("solvor.flow")
    m = len(arcs)
    if mode == "cap":
        caps = [s.int("cap%d" % k, 0, None) for k in range(m)]
        demand = s.int("demand", 0, None)
        costs = list(fixed_costs)
    else:
        caps = list(fixed_caps)
        demand = fixed_demand
        costs = [s.int("cost%d" % k, None if neg_ok else 0, None) for k in range(m)]
    graph = {}
    for k, (u, v) in enumerate(arcs):
        graph.setdefault(u, []).append((v, caps[k], costs[k]))
    res = mod.min_cost_flow(graph, source, sink, demand)
    balance = [0] * n
    balance[source] = demand
    balance[sink] = -demand if source != sink else 0
    g, feas = feasible_flow(s, n, arcs, caps, balance, "g")
    s.observe("status", int(res.status))
    if res.status == Status.INFEASIBLE:
        s.check(NOT(feas), "mcf.infeasible_only_if_no_feasible_flow")
        s.goal("mcf.infeasible")
        return
    s.check(res.status == Status.OPTIMAL and isinstance(res.solution, dict), "mcf.status_known", detail=str(res.status))
    fl = res.solution
    pooled_cap = {}
    for k, e in enumerate(arcs):
        pooled_cap[e] = pooled_cap.get(e, 0) + caps[k]
    bad = [e for e in fl if e not in pooled_cap]
    s.check(not bad, "mcf.flow_only_on_existing_arcs", detail=repr(bad))
    if bad:
        return
    s.check(AND([AND(fl[e] >= 0, fl[e] <= pooled_cap[e]) for e in fl]), "mcf.within_capacity")
    conds = []
    for v in range(n):
        out = ssum(f for (a, b), f in fl.items() if a == v)
        inn = ssum(f for (a, b), f in fl.items() if b == v)
        conds.append(out - inn == balance[v])
    s.check(AND(conds), "mcf.demand_met_and_conservation")
    if not has_parallel(arcs):
        cost_of = {e: costs[k] for k, e in enumerate(arcs)}
        s.check(res.objective == ssum(cost_of[e] * fl[e] for e in fl), "mcf.objective_is_sum_cost_times_flow")
    elif mode == "cap":
        # pooled flow on parallel arcs (costs concrete in this pass): the reported cost must be the cost of the cheapest split of each
        # pooled flow over its parallel arcs (cheapest arcs filled first) - written with non-forking min()
        total = 0
        for e in set(arcs):
            ks = sorted([k for k, e2 in enumerate(arcs) if e2 == e], key=lambda k: costs[k])
            left = fl.get(e, 0)
            for k in ks:
                use = smin(left, caps[k])
                total = total + costs[k] * use
                left = left - use
        s.check(res.objective == total, "mcf.objective_is_cost_of_cheapest_split_over_parallel_arcs")
    s.check(IMPLIES(feas, res.objective <= ssum(costs[k] * g[k] for k in range(m))), "mcf.no_feasible_flow_is_cheaper")
    s.goal("mcf.optimal")
    s.observe("objective", res.objective)


def h_ns(s, n, arcs, mode, fixed_costs=None, fixed_caps=None, fixed_supplies=None, supply_shape=None, neg_ok=False, sym_max_iter=False):
    """supply_shape: list of (node, sign) pairs: symbolic amounts d_i >= 0 leave/enter; the last node absorbs the remainder to keep balance."""
    Status = importlib.import_module("solvor.types").Status
    mod = importlib.import_module("solvor.network_simplex")
    m = len(arcs)
    if mode == "cap":
        caps = [s.int("cap%d" % k, 0, None) for k in range(m)]
        costs = list(fixed_costs)
        supplies = [0] * n
        for i, (node, sign) in enumerate(supply_shape):
            d = s.int("amount%d" % i, 0, None)
            supplies[node] = supplies[node] + sign * d
            supplies[n - 1] = supplies[n - 1] - sign * d
    else:
        caps = list(fixed_caps)
        supplies = list(fixed_supplies)
        costs = [s.int("cost%d" % k, None if neg_ok else 0, None) for k in range(m)]
    s.stub(mod, int=sym_int)
    inp = [(u, v, caps[k], costs[k]) for k, (u, v) in enumerate(arcs)]
    kw = {}
    if sym_max_iter:
        max_iter = s.int("max_iter", 0, 12)  # pivot budget: a run that is cut short may say MAX_ITER, never INFEASIBLE or a non-minimal OPTIMAL
        kw["max_iter"] = max_iter
    res = mod.network_simplex(n, inp, list(supplies), **kw)
    g, feas = feasible_flow(s, n, arcs, caps, supplies, "g")
    s.observe("status", int(res.status))
    if res.status == Status.MAX_ITER:
        s.check(sym_max_iter and res.solution is None, "ns.max_iter_status_only_with_a_budget_and_without_solution")
        if sym_max_iter:
            s.check(res.iterations >= max_iter, "ns.max_iter_only_when_budget_exhausted")
        s.goal("ns.max_iter")
        return
    if res.status == Status.INFEASIBLE:
        s.check(NOT(feas), "ns.infeasible_only_if_no_feasible_flow")
        s.goal("ns.infeasible")
        return
    s.check(res.status == Status.OPTIMAL and isinstance(res.solution, dict), "ns.status_known", detail=str(res.status))
    fl = res.solution
    pooled_cap = {}
    for k, e in enumerate(arcs):
        pooled_cap[e] = pooled_cap.get(e, 0) + caps[k]
    bad = [e for e in fl if e not in pooled_cap]
    s.check(not bad, "ns.flow_only_on_existing_arcs", detail=repr(bad))
    if bad:
        return
    if not has_parallel(arcs):
        s.check(AND([AND(fl[e] >= 0, fl[e] <= pooled_cap[e]) for e in fl]), "ns.within_capacity")
        conds = []
        for v in range(n):
            out = ssum(f for (a, b), f in fl.items() if a == v)
            inn = ssum(f for (a, b), f in fl.items() if b == v)
            conds.append(out - inn == supplies[v])
        s.check(AND(conds), "ns.every_node_balance_met")
        cost_of = {e: costs[k] for k, e in enumerate(arcs)}
        s.check(res.objective == ssum(cost_of[e] * fl[e] for e in fl), "ns.objective_is_sum_cost_times_flow")
    s.check(IMPLIES(feas, res.objective <= ssum(costs[k] * g[k] for k in range(m))), "ns.no_feasible_flow_is_cheaper")
    s.goal("ns.optimal")
    s.observe("objective", res.objective)


def h_assign(s, r, c):
    Status = importlib.import_module("solvor.types").Status
    mod = importlib.import_module("solvor.flow")
    M = [[s.int("m%d_%d" % (i, j), 0, None) for j in range(c)] for i in range(r)]
    res = mod.solve_assignment([list(row) for row in M])
    a = res.solution
    ok = isinstance(a, list) and len(a) == r and all(type(x) is int for x in a)
    s.check(ok, "assign.shape", detail=repr(a))
    if not ok:
        return
    used = [x for x in a if x != -1]
    s.check(all(0 <= x < c for x in used) and len(set(used)) == len(used) and len(used) == min(r, c), "assign.is_matching_of_full_size", detail=a)
    tot = ssum(M[i][a[i]] for i in range(r) if a[i] != -1)
    s.check(res.objective == tot, "assign.objective_is_sum_of_chosen")
    conds = []
    if r <= c:
        it = ([(i, cols[i]) for i in range(r)] for cols in itertools.permutations(range(c), r))
    else:
        it = ([(rows[j], j) for j in range(c)] for rows in itertools.permutations(range(r), c))
    for mt in it:
        conds.append(res.objective <= ssum(M[i][j] for i, j in mt))
    s.check(AND(conds), "assign.optimal_over_all_matchings")
    s.goal("assign.optimal")
    s.observe("assignment", list(a))
    s.observe("objective", res.objective)


# name: (n, arcs, source, sink, is_dag)
TOPO = {
    "path3": (3, [(0, 1), (1, 2)], 0, 2, True),
    "diamond4": (4, [(0, 1), (0, 2), (1, 3), (2, 3)], 0, 3, True),
    "diamond_cross4": (4, [(0, 1), (0, 2), (1, 2), (1, 3), (2, 3)], 0, 3, True),
    "two_routes3": (3, [(0, 2), (0, 1), (1, 2)], 0, 2, True),
    "cycle4": (4, [(0, 1), (1, 2), (2, 1), (2, 3), (1, 3)], 0, 3, False),
    "antipar3": (3, [(0, 1), (1, 0), (1, 2), (0, 2)], 0, 2, False),
    "antipar4": (4, [(0, 1), (0, 2), (1, 2), (2, 1), (1, 3), (2, 3)], 0, 3, False),
    "parallel3": (3, [(0, 1), (0, 1), (1, 2)], 0, 2, True),
    "parallel_both3": (3, [(0, 1), (0, 1), (1, 2), (1, 2), (0, 2)], 0, 2, True),
    "antipar_chain4": (4, [(0, 1), (1, 2), (2, 1), (2, 3), (1, 3), (0, 2), (3, 2)], 0, 3, False),
    "into_source4": (4, [(0, 1), (1, 0), (1, 3), (0, 2), (2, 3)], 0, 3, False),
    "ladder5": (5, [(0, 1), (0, 2), (1, 3), (2, 3), (1, 2), (3, 4), (2, 4)], 0, 4, True),
    "unreachable4": (4, [(0, 1), (2, 3)], 0, 3, True),
    "detour4": (4, [(0, 3), (0, 1), (1, 2), (2, 3)], 0, 3, True),
    "k4dag": (4, [(0, 1), (0, 2), (0, 3), (1, 2), (1, 3), (2, 3)], 0, 3, True),
    "back5": (5, [(0, 1), (1, 2), (2, 3), (3, 1), (3, 4), (1, 4)], 0, 4, False),
}


def items(tier, rng):
    out = []
    q = tier == "quick"
    for nm, (n, arcs, so, si, dag) in TOPO.items():
        m = len(arcs)
        grids = [[1] * m, [rng.randint(0, 4) for _ in range(m)], [rng.choice([1, 1, 2, 5]) for _ in range(m)]]
        if dag:
            grids.append([rng.randint(-2, 3) for _ in range(m)])
        for gi, costs in enumerate(grids if not q else grids[1:]):
            out.append({"name": "mcf_cap_" + nm, "harness": "h_mcf", "split": 6,
                        "params": {"n": n, "arcs": arcs, "source": so, "sink": si, "mode": "cap", "fixed_costs": costs}})
            if q and nm in ("ladder5",):
                continue
            out.append({"name": "ns_cap_" + nm, "harness": "h_ns", "split": 9,
                        "params": {"n": n, "arcs": arcs, "mode": "cap", "fixed_costs": costs,
                                   "supply_shape": [(so, 1)] if si == n - 1 else [(so, 1)]}})
        for _ in range(1 if q else 3):
            caps = [rng.randint(0, 3) for _ in range(m)]
            dem = rng.randint(1, 3)
            out.append({"name": "mcf_cost_" + nm, "harness": "h_mcf", "split": 6,
                        "params": {"n": n, "arcs": arcs, "source": so, "sink": si, "mode": "cost", "fixed_caps": caps, "fixed_demand": dem,
                                   "neg_ok": dag}})
            if not q:
                sup = [0] * n
                sup[so] = dem
                sup[si] -= dem
                out.append({"name": "ns_cost_" + nm, "harness": "h_ns", "split": 6,
                            "params": {"n": n, "arcs": arcs, "mode": "cost", "fixed_caps": caps, "fixed_supplies": sup, "neg_ok": dag}})
    # pivot budget (max_iter) symbolic on a few topologies
    for nm in list(TOPO)[: (4 if q else len(TOPO))]:
        (n, arcs, so, si, dag) = TOPO[nm]
        out.append({"name": "ns_budget_" + nm, "harness": "h_ns", "max_paths": 300 if q else 3000, "spread": rng.randrange(1 << 30),
                    "params": {"n": n, "arcs": arcs, "mode": "cap", "fixed_costs": [rng.randint(0, 4) for _ in arcs], "supply_shape": [(so, 1)],
                               "sym_max_iter": True}})
    # multi-source network simplex
    out.append({"name": "ns_multi4", "harness": "h_ns", "split": 6,
                "params": {"n": 4, "arcs": [(0, 2), (1, 2), (2, 3), (0, 3), (1, 3)], "mode": "cap", "fixed_costs": [1, 2, 1, 4, 3],
                           "supply_shape": [(0, 1), (1, 1)]}})
    if not q:
      out.append({"name": "ns_transship5", "harness": "h_ns", "split": 6,
                "params": {"n": 5, "arcs": [(0, 2), (1, 2), (2, 3), (2, 4), (3, 4), (0, 3)], "mode": "cap", "fixed_costs": [2, 1, 1, 3, 1, 5],
                           "supply_shape": [(0, 1), (1, 1), (3, -1)]}})
    for (r, c) in [(1, 1), (1, 2), (2, 1), (2, 2), (2, 3), (3, 2)] + ([] if q else [(3, 3), (3, 4), (4, 3)]):
        out.append({"name": "assign_%dx%d" % (r, c), "harness": "h_assign", "params": {"r": r, "c": c}, "split": 6 if r * c >= 6 else None})
    if not q:
        for i in range(60):
            n = rng.choice([4, 5])
            cand = [(u, v) for u in range(n) for v in range(n) if u != v]
            arcs = rng.sample(cand, rng.randint(4, 6))
            costs = [rng.randint(0, 4) for _ in arcs]
            out.append({"name": "mcf_rand%d" % i, "harness": "h_mcf", "split": 6,
                        "params": {"n": n, "arcs": arcs, "source": 0, "sink": n - 1, "mode": "cap", "fixed_costs": costs}})
            out.append({"name": "ns_rand%d" % i, "harness": "h_ns", "split": 6,
                        "params": {"n": n, "arcs": arcs, "mode": "cap", "fixed_costs": costs, "supply_shape": [(0, 1)]}})
    for it in out:
        if it.get("split") is None:
            it.pop("split", None)
    return out


def _topo_of(cex):
    p = cex["params"]
    return [tuple(a) for a in p.get("arcs", [])]


KNOWN_CLASSES = {
    "ns_tree_update": lambda cex: cex["label"].startswith("ns.") and cex["label"] in (
        "ns.no_feasible_flow_is_cheaper", "ns.infeasible_only_if_no_feasible_flow"),
}


def params_from_json(p):
    p = dict(p)
    if "arcs" in p:
        p["arcs"] = [tuple(a) for a in p["arcs"]]
    if "supply_shape" in p and p["supply_shape"]:
        p["supply_shape"] = [tuple(a) for a in p["supply_shape"]]
    return p

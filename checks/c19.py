"""C19 - search heuristics return the best point they evaluated, faithfully and reproducibly.

The user's objective is an arbitrary function: every distinct point gets its own unbounded SMT Real f_<point> (functional consistency by
memoisation), so one symbolic run decides the bookkeeping for EVERY objective function at once (plateaus/ties = equality facets).
The random stream is symbolic (SymRandom): every accept/reject / selection sequence is explored, not the handful a seed list produces.
"""

import importlib
import itertools
from fractions import Fraction

from symx.core import AND, OR, NOT, IMPLIES, ITE, IFF, SNum, SBool, ssum, sym_float, sym_int
from symx.stubs import SymRandom
from symx import core as _core

PROPERTY = "C19"
FILES = ["solvor/anneal.py", "solvor/tabu.py", "solvor/lns.py", "solvor/genetic.py", "solvor/differential_evolution.py",
         "solvor/particle_swarm.py", "solvor/nelder_mead.py", "solvor/powell.py", "solvor/bfgs.py", "solvor/bayesian.py", "solvor/utils/helpers.py"]
FUNCTIONS = ["solvor.anneal.anneal", "solvor.tabu.tabu_search", "solvor.lns.lns", "solvor.lns.alns", "solvor.genetic.evolve",
             "solvor.differential_evolution.differential_evolution", "solvor.particle_swarm.particle_swarm", "solvor.nelder_mead.nelder_mead",
             "solvor.powell.powell (+_line_search/_bracket_minimum/_golden_section_search)", "solvor.bfgs.bfgs / lbfgs / _backtracking_line_search",
             "solvor.bayesian.bayesian_opt (inner nelder_mead stubbed)", "solvor.utils.helpers.Evaluator"]
BOUNDS = {
    "quick": "anneal max_iter<=5 (3 cooling schedules), tabu_search max_iter<=3 with <=3 neighbours per step and cooldown in 0..2, lns max_iter<=4 "
             "(3 acceptance rules), alns max_iter<=3 with 2x2 operators and segment_size 2, evolve population 3 / 2 generations / elite 0..2 / "
             "adaptive on-off, differential_evolution pop 4 / 2 iterations, particle_swarm 3 particles / 2 iterations, nelder_mead 1-2 dims / 3 "
             "iterations; minimize and maximize; objective values unbounded Reals per point, random draws symbolic; fresh-point and revisiting "
             "neighbourhoods; user start points for DE/PSO, adaptive Nelder-Mead, 2-difference DE, numeric knobs off their defaults, and for every "
             "solver (incl. powell, bfgs, lbfgs, bayesian_opt) a progress callback that stops the run at its 1st/2nd report; powell with no / box / "
             "pinned bounds. anneal/lns/alns trees are exhausted; tabu/evolve/DE/PSO/Nelder-Mead/powell/bfgs trees are explored up to 150-500 paths "
             "per configuration in spread order (DESIGN 2.2; not exhaustive: stated in coverage.exhaustive)",
    "thorough": "one more iteration everywhere, tabu with 4 neighbours, evolve population 4",
}
OUTSIDE = ("longer runs; DE/PSO/Nelder-Mead positions come from a concrete seeded stream (only decisions and objective values are symbolic); "
           "powell / bfgs / lbfgs: only the clause 'reports the objective of exactly the point returned' (as the property states), 1-2 iterations, concrete "
           "gradient, path-capped; bayesian_opt: inner acquisition maximiser stubbed, erf/exp of surrogate values uninterpreted; float rounding")
ASSUMPTIONS = [
    "objective is a deterministic function of the point (memoised symbol per point)",
    "anneal (default cooling) / lns / alns with simulated-annealing acceptance: the start temperature is a symbolic positive Real, cooling rate 0.5",
    "Random is replaced by a symbolic stream honouring random()/randrange/sample/shuffle contracts; exp() by a fresh positive value with "
    "exp(x)<1 <=> x<0 (over-approximation; both are replayed from the model in concrete mode)",
    "reproducibility clause: every path witness is additionally run twice natively with the real Random(seed) and compared",
]
STUBS = ["<module>.Random := SymRandom", "<module>.exp := symbolic exp", "solvor.bayesian.nelder_mead := arbitrary in-bounds candidate", "solvor.bayesian.erf/exp := uninterpreted on symbolic arguments"]
GOALS = {"quick": ["anneal.uphill_accepted_after_best", "tabu.run", "lns.run", "alns.run", "evolve.run", "de.run", "pso.run", "nm.run", "de.init", "pso.init", "stop.requested", "powell.run", "bfgs.run", "bayes.run", "mirror.checked",
                   "repro.checked"],
         "thorough": ["anneal.uphill_accepted_after_best", "tabu.run", "lns.run", "alns.run", "evolve.run"]}
OPTS = {"quick": {"path_wall": 30.0}, "thorough": {"path_wall": 60.0}}


class Obj:
    """Recording objective: f(point) is a symbol per distinct point; `flip` serves -f (for the mirror run)."""

    def __init__(self, s, flip=False, key=None):
        self.s, self.flip, self.calls = s, flip, []
        self.key = key or (lambda p: p)

    def name(self, p):
        k = self.key(p)
        return "f_" + "_".join(str(x) for x in (k if isinstance(k, tuple) else (k,)))

    def value(self, p):
        return self.s.real(self.name(p))

    def __call__(self, p):
        # record a snapshot: solvers mutate position lists in place after the call (particle_swarm), the point evaluated is the one seen now
        self.calls.append(list(p) if isinstance(p, list) else p)
        v = self.value(p)
        return -v if self.flip else v


class ExpStub:
    def __init__(self, s):
        self.s, self.n = s, 0

    def __call__(self, x):
        import math
        self.n += 1
        nm = "exp!%d" % self.n
        if not self.s.symbolic:
            v = self.s.assignment.get(nm)
            if v is not None:
                return float(Fraction(v))  # replay the environment value chosen by the solver for this path
        if not isinstance(x, SNum) or not x._subst().co:
            v = x.value() if isinstance(x, SNum) else x
            try:
                return math.exp(v)
            except OverflowError:
                return float("inf")
        e = self.s.real(nm, 0, None, lo_strict=True)
        if self.s.symbolic:
            self.s.assume(AND(IFF(x < 0, e < 1), IFF(x == 0, e == 1)))
        return e


def better_eq(a, b, minimize):
    return a <= b if minimize else a >= b


def common_obligations(s, tag, res, obj, minimize, evals_expected=True):
    sol = res.solution
    s.check(res.objective == obj.value(sol), tag + ".objective_is_f_of_returned_solution")
    s.check(AND([better_eq(res.objective, obj.value(p), minimize) for p in set(map(_h, obj.calls))] or [True]), tag + ".at_least_as_good_as_every_evaluated_point")
    if evals_expected:
        s.check(res.evaluations == len(obj.calls), tag + ".evaluations_counts_objective_calls", detail={"reported": res.evaluations, "calls": len(obj.calls)})


def _h(p):
    return tuple(p) if isinstance(p, list) else p


def mirror(s, tag, run):
    """run(minimize, flip) -> (res, obj).  maximise f  ==  minimise -f: same solution, negated objective."""
    r1, o1 = run(False, False)
    r2, o2 = run(True, True)
    s.check(_h(r1.solution) == _h(r2.solution), tag + ".mirror_same_solution", detail={"max": repr(r1.solution), "min_neg": repr(r2.solution)})
    s.check(r1.objective == -r2.objective, tag + ".mirror_negated_objective")
    s.check(r1.evaluations == r2.evaluations and r1.iterations == r2.iterations, tag + ".mirror_same_effort")
    s.goal("mirror.checked")
    return r1, o1


def repro(s, tag, run_native):
    """Concrete mode only: two native runs with the real Random(seed) must agree."""
    if s.symbolic:
        return
    a = run_native()
    b = run_native()
    s.check(_h(a.solution) == _h(b.solution) and a.objective == b.objective and a.evaluations == b.evaluations, tag + ".same_seed_same_result")
    s.goal("repro.checked")


def table_objective(s, obj):
    """Native objective built from the witness values of this path (unknown points get a hash-based value)."""
    known = {}
    for p in obj.calls:
        v = s.assignment.get(obj.name(p))
        if v is not None:
            known[_h(p)] = float(Fraction(v))
    return lambda p: known.get(_h(p), ((hash(_h(p)) % 1000) / 37.0))


# ------------------------------------------------------------------------------------------ anneal
def h_anneal(s, max_iter, minimize, cooling, revisit, stop=0):
    mod = importlib.import_module("solvor.anneal")

    def nb(p):
        return (p + 1) % 3 if revisit else p + 1

    cool = {"default": 0.5, "linear": mod.linear_cooling(), "log": mod.logarithmic_cooling()}[cooling]
    temp0 = s.real("temperature", 0, None, lo_strict=True) if cooling == "default" else 10.0

    def run(mn, flip):
        obj = Obj(s, flip)
        s.patch(mod, Random=SymRandom(s), exp=ExpStub(s))
        res = mod.anneal(0, obj, nb, minimize=mn, temperature=temp0, cooling=cool, min_temp=0.01, max_iter=max_iter, seed=3, **_stop_kw(stop))
        return res, obj

    if minimize:
        res, obj = run(True, False)
    else:
        res, obj = mirror(s, "anneal", run)
    common_obligations(s, "anneal", res, obj, minimize)
    # coverage: an uphill move accepted after the best point was found
    s.observe("solution", res.solution)
    s.observe("objective", res.objective)
    if res.solution != obj.calls[-1] and len(obj.calls) > 2:
        s.goal("anneal.uphill_accepted_after_best")
    s._restore()
    tab = table_objective(s, obj) if not s.symbolic else None
    repro(s, "anneal", lambda: mod.anneal(0, tab, nb, minimize=minimize, temperature=float(temp0), cooling=cool, min_temp=0.01, max_iter=max_iter, seed=3,
                                         **_stop_kw(stop)))


# ------------------------------------------------------------------------------------------ tabu
def h_tabu(s, max_iter, minimize, width, revisit, stop=0):
    mod = importlib.import_module("solvor.tabu")
    cooldown = s.concrete(s.int("cooldown", 1, 3))  # deque(maxlen=...) needs a real int

    def nbs(p):
        if revisit:
            return [(("m", k), (p + k + 1) % 4) for k in range(width)]
        return [(("m", k), p * width + k + 1) for k in range(width)]

    def run(mn, flip):
        obj = Obj(s, flip)
        s.patch(mod, Random=SymRandom(s))
        res = mod.tabu_search(0, obj, nbs, minimize=mn, cooldown=cooldown, max_iter=max_iter, max_no_improve=2, seed=3, **_stop_kw(stop))
        return res, obj

    if minimize:
        res, obj = run(True, False)
    else:
        res, obj = mirror(s, "tabu", run)
    common_obligations(s, "tabu", res, obj, minimize)
    s.check(better_eq(res.objective, obj.value(0), minimize), "tabu.at_least_as_good_as_the_starting_point")
    if stop:
        s.goal("stop.requested")
    s.goal("tabu.run")
    s.observe("solution", res.solution)
    s.observe("objective", res.objective)
    s._restore()
    if not s.symbolic:
        tab = table_objective(s, obj)
        cd = int(s.assignment.get("cooldown", 1))
        repro(s, "tabu", lambda: mod.tabu_search(0, tab, nbs, minimize=minimize, cooldown=cd, max_iter=max_iter, max_no_improve=2, seed=3, **_stop_kw(stop)))


# ------------------------------------------------------------------------------------------ lns / alns
def h_lns(s, max_iter, minimize, accept, revisit, stop=0):
    mod = importlib.import_module("solvor.lns")
    ctr = [0]

    def destroy(p, rng):
        return ("partial", p)

    def repair(part, rng):
        p = part[1]
        if revisit:
            return (p + 1) % 3
        ctr[0] += 1
        return ctr[0]

    # the start temperature is symbolic (any positive real), the cooling rate concrete: the schedule stays linear in the symbol and the
    # "frozen" regime (temperature below 1e-10) is reached within the iteration bound
    start_temp = s.real("start_temp", 0, None, lo_strict=True) if accept == "simulated_annealing" else 5.0

    def run(mn, flip):
        ctr[0] = 0
        obj = Obj(s, flip)
        s.patch(mod, Random=SymRandom(s), exp=ExpStub(s))
        res = mod.lns(0, obj, destroy, repair, minimize=mn, accept=accept, start_temp=start_temp, cooling_rate=0.5, max_iter=max_iter,
                      max_no_improve=3, seed=1, **_stop_kw(stop))
        return res, obj

    if minimize:
        res, obj = run(True, False)
    else:
        res, obj = mirror(s, "lns", run)
    common_obligations(s, "lns", res, obj, minimize)
    s.goal("lns.run")
    s.observe("solution", res.solution)
    s.observe("objective", res.objective)
    s._restore()
    if not s.symbolic:
        tab = table_objective(s, obj)

        def nat():
            ctr[0] = 0
            return mod.lns(0, tab, destroy, repair, minimize=minimize, accept=accept, start_temp=float(start_temp), cooling_rate=0.5,
                           max_iter=max_iter, max_no_improve=3, seed=1, **_stop_kw(stop))
        repro(s, "lns", nat)


def h_alns(s, max_iter, minimize, accept, stop=0, knobs=None):
    mod = importlib.import_module("solvor.lns")
    ctr = [0]

    def d0(p, rng):
        return ("d0", p)

    def d1(p, rng):
        return ("d1", p)

    def r0(part, rng):
        ctr[0] += 1
        return ctr[0]

    def r1(part, rng):
        return part[1]  # puts the old point back (revisit)

    start_temp = s.real("start_temp", 0, None, lo_strict=True) if accept == "simulated_annealing" else 5.0

    def run(mn, flip):
        ctr[0] = 0
        obj = Obj(s, flip)
        s.patch(mod, Random=SymRandom(s), exp=ExpStub(s))
        res = mod.alns(0, obj, [d0, d1], [r0, r1], minimize=mn, accept=accept, start_temp=start_temp, cooling_rate=0.5, segment_size=2,
                       max_iter=max_iter, max_no_improve=3, seed=1, **_stop_kw(stop), **(knobs or {}))
        return res, obj

    if minimize:
        res, obj = run(True, False)
    else:
        res, obj = mirror(s, "alns", run)
    common_obligations(s, "alns", res, obj, minimize)
    s.goal("alns.run")
    s.observe("solution", res.solution)
    s.observe("objective", res.objective)


# ------------------------------------------------------------------------------------------ evolve
def h_evolve(s, pop_size, gens, minimize, elite, adaptive, stop=0):
    mod = importlib.import_module("solvor.genetic")
    ctr = [0]

    def crossover(a, b):
        ctr[0] += 1
        return 100 + ctr[0]

    def mutate(a):
        return a + 1000

    def run(mn, flip):
        ctr[0] = 0
        obj = Obj(s, flip)
        s.patch(mod, Random=SymRandom(s))
        res = mod.evolve(obj, list(range(pop_size)), crossover, mutate, minimize=mn, elite_size=elite, mutation_rate=0.5,
                         adaptive_mutation=adaptive, max_iter=gens, tournament_k=2, seed=5, **_stop_kw(stop))
        return res, obj

    if minimize:
        res, obj = run(True, False)
    else:
        res, obj = mirror(s, "evolve", run)
    common_obligations(s, "evolve", res, obj, minimize)
    s.goal("evolve.run")
    s.observe("solution", res.solution)
    s.observe("objective", res.objective)
    s._restore()
    if not s.symbolic:
        tab = table_objective(s, obj)

        def nat():
            ctr[0] = 0
            return mod.evolve(tab, list(range(pop_size)), crossover, mutate, minimize=minimize, elite_size=elite, mutation_rate=0.5,
                              adaptive_mutation=adaptive, max_iter=gens, tournament_k=2, seed=5, **_stop_kw(stop))
        repro(s, "evolve", nat)


# ------------------------------------------------------------------------------------------ continuous solvers with concrete positions
class HalfSymRandom(SymRandom):
    """Decisions (random() used in comparisons with rates) stay symbolic; position draws (uniform/gauss) come from a concrete seeded stream."""

    def __init__(self, s, seed=11):
        super().__init__(s)
        from random import Random
        self._r = Random(seed)

    def uniform(self, a, b):
        return self._r.uniform(a, b)

    def gauss(self, mu=0.0, sigma=1.0):
        return self._r.gauss(mu, sigma)


def _pkey(p):
    return tuple(round(float(x), 9) for x in p)


def _stop_kw(stop):
    """on_progress callback asking to stop at the `stop`-th report (progress_interval=1): the early-exit Result of every solver."""
    if not stop:
        return {}
    seen = [0]

    def cb(progress):
        seen[0] += 1
        return seen[0] >= stop
    return {"on_progress": cb, "progress_interval": 1}


def h_de(s, iters, minimize, strategy, init=False, stop=0, pop=4, knobs=None):
    mod = importlib.import_module("solvor.differential_evolution")
    bounds = [(-1.0, 2.0), (0.0, 1.0)]
    # user-supplied starting points (one outside the box: documented to be clipped); "at least as good as the starting point(s)"
    starts = [[5.0, 0.5], [0.25, 0.25]] if init else []
    clipped = [[max(lo, min(hi, x)) for x, (lo, hi) in zip(p, bounds)] for p in starts]

    def run(mn, flip):
        obj = Obj(s, flip, key=lambda p: tuple(str(x).replace("-", "m").replace(".", "p") for x in _pkey(p)))
        s.patch(mod, Random=HalfSymRandom(s))
        kw = dict(_stop_kw(stop), **(knobs or {}))
        if init:
            kw["initial_population"] = [list(p) for p in starts]
        res = mod.differential_evolution(obj, bounds, minimize=mn, population_size=pop, max_iter=iters, seed=2, strategy=strategy, tol=0.0, **kw)
        return res, obj

    if minimize:
        res, obj = run(True, False)
    else:
        res, obj = mirror(s, "de", run)
    common_obligations(s, "de", res, obj, minimize)
    if init:
        s.check(AND([better_eq(res.objective, obj.value(p), minimize) for p in clipped]), "de.at_least_as_good_as_the_starting_points")
        s.goal("de.init")
    if stop:
        s.goal("stop.requested")
    sol = res.solution
    s.check(all(lo - 1e-12 <= x <= hi + 1e-12 for x, (lo, hi) in zip(sol, bounds)), "de.solution_inside_bounds", detail=repr(sol))
    s.check(all(all(lo - 1e-12 <= x <= hi + 1e-12 for x, (lo, hi) in zip(p, bounds)) for p in obj.calls), "de.every_evaluated_point_inside_bounds")
    s.goal("de.run")
    s.observe("solution", [float(x) for x in sol])
    s.observe("objective", res.objective)


def h_pso(s, iters, minimize, init=False, decay=False, stop=0, knobs=None, n=3):
    mod = importlib.import_module("solvor.particle_swarm")
    bounds = [(-1.0, 2.0), (0.0, 1.0)]
    starts = [[5.0, 0.5], [0.25, 0.25]] if init else []
    clipped = [[max(lo, min(hi, x)) for x, (lo, hi) in zip(p, bounds)] for p in starts]

    class PsoRandom(HalfSymRandom):
        def random(self):  # PSO multiplies random() into velocities: keep those draws concrete too
            return self._r.random()

    def run(mn, flip):
        obj = Obj(s, flip, key=lambda p: tuple(str(x).replace("-", "m").replace(".", "p") for x in _pkey(p)))
        s.patch(mod, Random=PsoRandom(s))
        kw = dict(_stop_kw(stop), **(knobs or {}))
        if init:
            kw["initial_positions"] = [list(p) for p in starts]
        if decay:
            kw["inertia_decay"] = 0.25
        res = mod.particle_swarm(obj, bounds, minimize=mn, n_particles=n, max_iter=iters, seed=2, **kw)
        return res, obj

    if minimize:
        res, obj = run(True, False)
    else:
        res, obj = mirror(s, "pso", run)
    common_obligations(s, "pso", res, obj, minimize)
    if init:
        s.check(AND([better_eq(res.objective, obj.value(p), minimize) for p in clipped]), "pso.at_least_as_good_as_the_starting_points")
        s.goal("pso.init")
    if stop:
        s.goal("stop.requested")
    sol = res.solution
    s.check(all(lo - 1e-12 <= x <= hi + 1e-12 for x, (lo, hi) in zip(sol, bounds)), "pso.solution_inside_bounds", detail=repr(sol))
    s.goal("pso.run")
    s.observe("solution", [float(x) for x in sol])
    s.observe("objective", res.objective)


def h_nm(s, dim, iters, minimize, adaptive=False, stop=0, knobs=None):
    mod = importlib.import_module("solvor.nelder_mead")
    x0 = [0.5] * dim

    def run(mn, flip):
        obj = Obj(s, flip, key=lambda p: tuple(str(x).replace("-", "m").replace(".", "p") for x in _pkey(p)))
        res = mod.nelder_mead(obj, x0, minimize=mn, max_iter=iters, tol=0.0, adaptive=adaptive, **_stop_kw(stop), **(knobs or {}))
        return res, obj

    if minimize:
        res, obj = run(True, False)
    else:
        res, obj = mirror(s, "nm", run)
    common_obligations(s, "nm", res, obj, minimize)
    s.check(better_eq(res.objective, obj.value(x0), minimize), "nm.at_least_as_good_as_the_starting_point")
    if stop:
        s.goal("stop.requested")
    s.goal("nm.run")
    s.observe("solution", [float(x) for x in res.solution])
    s.observe("objective", res.objective)


# ------------------------------------------------------------------------------------------ second group: powell / bfgs / lbfgs / bayesian_opt
def _fkey(p):
    # exact: a backtracking line search halves its step down to 2^-50, points 1e-15 apart are different points (positions are concrete floats
    # in the symbolic and in the native run alike, so no rounding is needed to match them up)
    return tuple(repr(float(x)).replace("-", "m").replace(".", "p").replace("e", "E").replace("+", "") for x in p)


def h_powell(s, dim, minimize, bounded, iters=1, stop=0):
    """Positions only depend on comparisons of objective values (bracketing + golden section), so they stay concrete while every objective
    value is symbolic. Clause: the reported objective is the objective of exactly the point returned."""
    mod = importlib.import_module("solvor.powell")
    obj = Obj(s, False, key=_fkey)
    x0 = [0.3, -0.2][:dim]
    # bound shapes: none, a proper box, and boxes with pinned (lo == hi) coordinates, where a line search has no room to move
    shapes = {False: None, True: [(-1.0, 1.0)] * dim, "box": [(-1.0, 1.0)] * dim,
              "pin_last": ([(-1.0, 1.0)] * dim)[:dim - 1] + [(0.25, 0.25)],
              "pin_first": [(0.5, 0.5)] + [(-1.0, 1.0)] * (dim - 1),
              "pin_all": [(0.5, 0.5), (-0.75, -0.75)][:dim]}
    bounds = shapes[bounded]
    res = mod.powell(obj, x0, minimize=minimize, bounds=bounds, max_iter=iters, tol=1e-6, **_stop_kw(stop))
    s.check(res.objective == obj.value(res.solution), "powell.objective_is_f_of_returned_solution")
    if bounds:
        s.check(all(lo - 1e-12 <= v <= hi + 1e-12 for v, (lo, hi) in zip(res.solution, bounds)), "powell.solution_inside_bounds", detail=repr(res.solution))
    s.goal("powell.run")
    # a line search compares f(x + alpha d) with thresholds that differ from f(x) by ~1e-10 * slope: in exact arithmetic and in doubles such
    # comparisons can fall on different sides, so the trajectory is not compared value-by-value with the native run (the obligations are
    # checked on both runs)
    s.observe("ran", 1)


def h_bfgs(s, variant, minimize, iters, stop=0):
    """Gradient = gradient of a fixed concrete quadratic (positions then depend only on the Armijo decisions, which compare SYMBOLIC objective
    values): the objective is an arbitrary function, unrelated to the gradient - the bookkeeping clause must hold regardless."""
    mod = importlib.import_module("solvor.bfgs")
    obj = Obj(s, False, key=_fkey)
    sgn = 1.0 if minimize else -1.0

    def grad(x):
        return [sgn * (2.0 * x[0] + 0.5 * x[1] - 1.0), sgn * (0.5 * x[0] + 1.0 * x[1] + 0.25)]

    fn = getattr(mod, variant)
    kw = {"m": 2} if variant == "lbfgs" else {}
    kw.update(_stop_kw(stop))
    res = fn(grad, [0.5, -0.5], minimize=minimize, objective_fn=obj, max_iter=iters, tol=1e-9, **kw)
    s.check(res.objective == obj.value(res.solution), variant + ".objective_is_f_of_returned_solution")
    s.goal("bfgs.run")
    s.observe("ran", 1)  # (see h_powell: Armijo thresholds ~1e-10 apart are float-sensitive)


def h_bayes(s, minimize, acquisition, extra, stop=0):
    """The acquisition maximiser (inner nelder_mead) is replaced by a stub returning an arbitrary in-bounds candidate from a concrete stream
    (over-approximation of the maximiser); erf/exp of symbolic surrogate values are uninterpreted. Objective values symbolic."""
    mod = importlib.import_module("solvor.bayesian")
    Result = importlib.import_module("solvor.types").Result
    from random import Random as _R
    bounds = [(-1.0, 2.0), (0.0, 1.0)]
    cand = _R(5)

    def nm_stub(f, x0, **kw):
        return Result([cand.uniform(lo, hi) for lo, hi in bounds], 0.0, 1, 1)

    def unint(name):
        def g(x):
            import math
            if not isinstance(x, SNum) or not x._subst().co:
                return getattr(math, name)(x.value() if isinstance(x, SNum) else x)
            c = _core._ctx()
            c.fresh_n += 1
            return s.real("%s!%d" % (name, c.fresh_n), 0 if name == "exp" else -1, 1 if name == "erf" else None)
        return g

    def run(mn, flip):
        obj = Obj(s, flip, key=_fkey)
        s.patch(mod, nelder_mead=nm_stub)
        s.stub(mod, erf=unint("erf"), exp=unint("exp"))
        res = mod.bayesian_opt(obj, bounds, minimize=mn, max_iter=2 + extra, n_initial=2, acquisition=acquisition, acq_restarts=1, seed=4,
                               **_stop_kw(stop))
        return res, obj

    res, obj = run(minimize, False)
    common_obligations(s, "bayes", res, obj, minimize)
    s.check(all(lo - 1e-12 <= x <= hi + 1e-12 for x, (lo, hi) in zip(res.solution, bounds)), "bayes.solution_inside_bounds", detail=repr(res.solution))
    s.goal("bayes.run")
    s.observe("solution", [float(x) for x in res.solution])
    s.observe("objective", res.objective)


def items(tier, rng):
    out = []
    q = tier == "quick"
    x = 0 if q else 1
    cap = 500 if q else 2500

    def add(name, harness, params, exhaustive_split=None, mp=None):
        it = {"name": name, "harness": harness, "params": params}
        if exhaustive_split:
            it["split"] = exhaustive_split
        else:
            it["max_paths"] = mp or cap
            it["spread"] = rng.randrange(1 << 30)  # capped tree: scatter the explored paths over all depths (see Explorer.spread)
        out.append(it)

    for mn in (True, False):
        for cooling in ("default", "linear", "log"):
            for revisit in (False, True):
                mi = 5 + x if (cooling == "default" and mn) else 4 + x
                add("anneal", "h_anneal", {"max_iter": mi, "minimize": mn, "cooling": cooling, "revisit": revisit}, 5)
        for revisit in (False, True):
            add("tabu", "h_tabu", {"max_iter": 2 + x, "minimize": mn, "width": 2, "revisit": revisit})
            add("tabu3", "h_tabu", {"max_iter": 2, "minimize": mn, "width": 3, "revisit": revisit})
            for accept in ("improving", "accept_all", "simulated_annealing"):
                add("lns", "h_lns", {"max_iter": 4 + x, "minimize": mn, "accept": accept, "revisit": revisit}, 4)
        for accept in ("improving", "simulated_annealing"):
            add("alns", "h_alns", {"max_iter": 3 + x, "minimize": mn, "accept": accept}, 6)
        for elite in (0, 1, 2):
            for adaptive in (False, True):
                if adaptive and elite == 1:
                    continue
                add("evolve", "h_evolve", {"pop_size": 3 + x, "gens": 2, "minimize": mn, "elite": elite, "adaptive": adaptive})
        for strategy in ("rand/1", "best/1"):
            add("de", "h_de", {"iters": 1 + x, "minimize": mn, "strategy": strategy})
            add("de_init", "h_de", {"iters": 1 + x, "minimize": mn, "strategy": strategy, "init": True})
        for sp in (1, 2, 3):  # population_size below the internal minimum of 4 (the solver pads it)
            add("de_smallpop", "h_de", {"iters": 1, "minimize": mn, "strategy": "rand/1", "pop": sp, "init": sp == 3})
        add("de_2diffs", "h_de", {"iters": 1, "minimize": mn, "strategy": "rand/2", "pop": 6})
        add("de_stop", "h_de", {"iters": 3, "minimize": mn, "strategy": "best/1", "init": True, "stop": 1}, mp=150 if q else 1500)
        add("pso", "h_pso", {"iters": 1 + x, "minimize": mn})
        for sn in (1, 2):  # very small swarms
            add("pso_small", "h_pso", {"iters": 2, "minimize": mn, "n": sn, "init": sn == 2})
        add("evolve_small", "h_evolve", {"pop_size": 2, "gens": 2, "minimize": mn, "elite": 1, "adaptive": False})
        add("pso_init", "h_pso", {"iters": 1 + x, "minimize": mn, "init": True, "decay": True})
        add("pso_stop", "h_pso", {"iters": 3, "minimize": mn, "init": True, "stop": 2}, mp=150 if q else 1500)
        for dim in (1, 2):
            add("nm", "h_nm", {"dim": dim, "iters": 2 + x, "minimize": mn})
        add("nm_adaptive", "h_nm", {"dim": 2, "iters": 2 + x, "minimize": mn, "adaptive": True})
        add("nm_stop", "h_nm", {"dim": 2, "iters": 4, "minimize": mn, "stop": 2}, mp=150 if q else 1500)
        # numeric knobs away from their defaults
        add("alns_knobs", "h_alns", {"max_iter": 3, "minimize": mn, "accept": "simulated_annealing",
                                     "knobs": {"destroy_weights": [1.0, 3.0], "repair_weights": [2.0, 0.5], "reaction_factor": 0.5, "score_best": 5.0,
                                               "score_better": 1.5, "score_accept": 0.25}}, mp=200 if q else 2000)
        add("de_knobs", "h_de", {"iters": 1 + x, "minimize": mn, "strategy": "rand/1", "knobs": {"mutation": 0.5, "crossover": 0.9}})
        add("pso_knobs", "h_pso", {"iters": 1 + x, "minimize": mn, "knobs": {"inertia": 0.9, "cognitive": 0.5, "social": 2.5, "v_max": 0.25}})
        add("nm_knobs", "h_nm", {"dim": 2, "iters": 2 + x, "minimize": mn, "knobs": {"initial_step": 0.5}})
        add("anneal_stop", "h_anneal", {"max_iter": 4, "minimize": mn, "cooling": "default", "revisit": False, "stop": 2}, mp=200 if q else 2000)
        add("lns_stop", "h_lns", {"max_iter": 3, "minimize": mn, "accept": "simulated_annealing", "revisit": False, "stop": 2}, mp=200 if q else 2000)
        add("alns_stop", "h_alns", {"max_iter": 3, "minimize": mn, "accept": "simulated_annealing", "stop": 2}, mp=200 if q else 2000)
        add("evolve_stop", "h_evolve", {"pop_size": 3, "gens": 3, "minimize": mn, "elite": 1, "adaptive": True, "stop": 2}, mp=200 if q else 2000)
        add("powell_stop", "h_powell", {"dim": 2, "minimize": mn, "bounded": "box", "iters": 2, "stop": 1}, mp=100 if q else 1500)
        add("bfgs_stop", "h_bfgs", {"variant": "bfgs", "minimize": mn, "iters": 3, "stop": 2}, mp=100 if q else 1500)
        add("lbfgs_stop", "h_bfgs", {"variant": "lbfgs", "minimize": mn, "iters": 3, "stop": 2}, mp=100 if q else 1500)
        add("bayes_stop", "h_bayes", {"minimize": mn, "acquisition": "ei", "extra": 3, "stop": 1})
        add("tabu_stop", "h_tabu", {"max_iter": 4, "minimize": mn, "width": 2, "revisit": False, "stop": 2}, mp=200 if q else 2000)
        for dim in (1, 2):
            for bounded in (False, "box", "pin_last", "pin_first", "pin_all"):
                if dim == 1 and bounded in ("pin_first", "pin_all"):
                    continue
                add("powell", "h_powell", {"dim": dim, "minimize": mn, "bounded": bounded}, mp=150 if q else 1500)
        for variant in ("bfgs", "lbfgs"):
            add(variant, "h_bfgs", {"variant": variant, "minimize": mn, "iters": 2 + x}, mp=120 if q else 3000)
        for acq in ("ei", "ucb"):
            add("bayes", "h_bayes", {"minimize": mn, "acquisition": acq, "extra": 2 + x})
    return out

"""C18 - job-shop schedules and VRPTW route bookkeeping.

Job shop: machines/shape/rule structural; ALL durations unbounded non-negative SMT Ints; random draws symbolic.
VRPTW: decided inductively, ONE operator application from an ARBITRARY bookkeeping-valid state (route membership structural, enumerated;
distances, demands, capacities, time windows, service times symbolic Reals; random draws symbolic). One step covers operator sequences of
any length because the invariant is re-established by every operator.
"""

import importlib
import itertools

from symx.core import AND, OR, NOT, IMPLIES, ITE, IFF, SNum, ssum, sym_float, sym_int, smax
from symx.stubs import SymRandom

PROPERTY = "C18"
FILES = ["solvor/job_shop.py", "solvor/vrp.py", "solvor/lns.py"]
FUNCTIONS = ["solvor.job_shop.solve_job_shop / _dispatch / _try_swap / _rebuild_schedule / _compute_makespan",
             "solvor.vrp.{random,worst,related,route,sync}_removal", "solvor.vrp.{greedy,regret,sync_aware}_insertion", "solvor.vrp._insertion_cost",
             "solvor.vrp.VRPState.{copy,compute_arrival_times,update_arrival_times,*_violation}", "solvor.vrp.vrp_objective", "solvor.vrp.solve_vrptw (with solvor.lns.alns underneath)"]
BOUNDS = {
    "quick": "job shop: shapes 2x2, 3x2, 2x3 (jobs x ops) with 8 machine assignments each (repeated machines inside a job included), rules "
             "fifo/spt/lpt/mwkr/random, local search off and on (max_iter<=2), machine indices with gaps, early stop through on_progress; durations unbounded Ints >= 0. VRPTW operators: 3 customers (one "
             "needing 2 vehicles) + depot, 2 vehicles, EVERY bookkeeping-valid pre-state (route membership and order), each of the 8 exported "
             "operators once; distances (symmetric, non-negative), demands, capacities, windows, service times symbolic; vrp_objective on the same states and on states of 2 customers / 3 vehicles with a customer that requires three vehicles; solve_vrptw end to end on 3 instances (tuples of every accepted length / Customer objects, int / list fleets, symbolic demands, windows, service times, capacities and penalty weights, concrete coordinates), 1 and 3 ALNS iterations, path-capped",
    "thorough": "job shop 3x3 and max_iter 3; VRPTW with 4 customers (two multi-vehicle) and 3 vehicles (VERIF_SEED-sampled pre-states)",
}
OUTSIDE = "more customers/vehicles/jobs than the bound; solve_vrptw beyond 3 ALNS iterations on the three instances (its search is covered through the one-step operator obligations); float rounding"
ASSUMPTIONS = [
    "VRP invariant INV: every customer is in `unassigned` XOR on at least one route; no duplicate inside a route; a single-vehicle customer is on at "
    "most one route; a k-vehicle customer on at most k routes; arrival_times[v] == compute_arrival_times(v)",
    "inductive argument: INV(pre) -> INV(post) for each operator and INV holds for VRPState.from_problem (all unassigned); sync_assignments is "
    "not part of INV, so pre-states also carry an arbitrary (stale) sync_assignments entry for the multi-vehicle customer",
    "Random replaced by a symbolic stream; float() shadowed in solvor.job_shop",
]
STUBS = ["solvor.job_shop.Random := SymRandom", "solvor.job_shop.float := symbolic float", "operators receive a SymRandom instance as rng",
         "solve_vrptw: solvor.vrp.Random and solvor.lns.Random := one SymRandom stream, solvor.lns.exp := symbolic exp (order facts only)"]
GOALS = {"quick": ["vrptw.top", "js.local_search", "js.random_rule", "vrp.route_removal", "vrp.sync_aware_insertion", "vrp.greedy_insertion", "vrp.multi_on_two_routes",
                   "vrp.objective"],
         "thorough": ["js.local_search", "vrp.route_removal", "vrp.sync_aware_insertion"]}
OPTS = {"quick": {"path_wall": 30.0, "qto": 10000}, "thorough": {"path_wall": 60.0, "qto": 20000}}


# ------------------------------------------------------------------------------------------ job shop
def h_jobshop(s, machines, rule, local_search, max_iter, stop=0):
    """machines: list of lists (machine index per operation)."""
    mod = importlib.import_module("solvor.job_shop")
    dur = [[s.int("d%d_%d" % (j, k), 0, None) for k in range(len(row))] for j, row in enumerate(machines)]
    jobs = [[(machines[j][k], dur[j][k]) for k in range(len(machines[j]))] for j in range(len(machines))]
    s.patch(mod, Random=SymRandom(s))
    s.stub(mod, float=sym_float)
    kw = {}
    if stop:  # a progress callback that asks to stop at its stop-th report: the early-exit Result is held to the same obligations
        seen = [0]

        def cb(progress):
            seen[0] += 1
            return seen[0] >= stop
        kw = {"on_progress": cb, "progress_interval": 1}
    res = mod.solve_job_shop(jobs, rule=rule, local_search=local_search, max_iter=max_iter, seed=1, **kw)
    sch = res.solution
    ops = [(j, k) for j in range(len(machines)) for k in range(len(machines[j]))]
    ok = isinstance(sch, dict) and set(sch.keys()) == set(ops)
    s.check(ok, "js.every_operation_scheduled_once", detail=repr(sorted(sch.keys())) if isinstance(sch, dict) else repr(sch))
    if not ok:
        return
    s.check(AND([AND(sch[o][0] >= 0, sch[o][1] - sch[o][0] == dur[o[0]][o[1]]) for o in ops]), "js.end_minus_start_is_duration")
    s.check(AND([sch[(j, k + 1)][0] >= sch[(j, k)][1] for (j, k) in ops if (j, k + 1) in sch]), "js.job_order_without_overlap")
    conds = []
    for a, b in itertools.combinations(ops, 2):
        if machines[a[0]][a[1]] == machines[b[0]][b[1]]:
            conds.append(OR(sch[a][1] <= sch[b][0], sch[b][1] <= sch[a][0]))
    s.check(AND(conds) if conds else True, "js.no_overlap_on_a_machine")
    s.check(AND(AND([res.objective >= sch[o][1] for o in ops]), OR([res.objective == sch[o][1] for o in ops])), "js.objective_is_latest_end")
    if local_search:
        s.goal("js.local_search")
    if rule == "random":
        s.goal("js.random_rule")
    s.observe("objective", res.objective)
    s.observe("schedule", {"%d_%d" % o: list(sch[o]) for o in ops})


# ------------------------------------------------------------------------------------------ VRPTW
def enumerate_states(n_cust, n_veh, multi):
    """All bookkeeping-valid (routes, unassigned) for customers 1..n_cust, `multi` = {cid: required_vehicles}."""
    custs = list(range(1, n_cust + 1))
    # placement: for each customer a set of vehicles (empty = unassigned), |set| <= required
    options = []
    for c in custs:
        k = multi.get(c, 1)
        opts = [()]
        for r in range(1, k + 1):
            opts += list(itertools.combinations(range(n_veh), r))
        options.append(opts)
    for placement in itertools.product(*options):
        per_route = [[c for c, vs in zip(custs, placement) if v in vs] for v in range(n_veh)]
        for orders in itertools.product(*[list(itertools.permutations(r)) for r in per_route]):
            routes = [list(o) for o in orders]
            unassigned = {c for c, vs in zip(custs, placement) if not vs}
            yield routes, unassigned


def make_state(s, n_cust, n_veh, multi, routes, unassigned, triangle=False, sync=None):
    vrp = importlib.import_module("solvor.vrp")
    N = n_cust + 1
    D = [[0.0] * N for _ in range(N)]
    for i in range(N):
        for j in range(i + 1, N):
            d = s.real("dist%d_%d" % (i, j), 0, None)
            D[i][j] = d
            D[j][i] = d
    customers = [vrp.Customer(0, 0.0, 0.0)]
    for c in range(1, N):
        tw0 = s.real("tw_start%d" % c, 0, None)
        tw1 = s.real("tw_end%d" % c, 0, None)
        s.assume(tw0 <= tw1)
        customers.append(vrp.Customer(c, 0.0, 0.0, s.real("demand%d" % c, 0, None), tw0, tw1, s.real("service%d" % c, 0, None), multi.get(c, 1)))
    vehicles = [vrp.Vehicle(v, s.real("capacity%d" % v, 0, None)) for v in range(n_veh)]
    st = vrp.VRPState(customers=customers, vehicles=vehicles, routes=[list(r) for r in routes], arrival_times=[[] for _ in range(n_veh)],
                      unassigned=set(unassigned), sync_assignments={int(k): set(v) for k, v in (sync or {}).items()}, _dist=D)
    st.update_arrival_times()  # INV (d) by construction, through the real method
    return st


def ref_arrivals(st, v, D=None):
    """Arrival times of route v written from the documentation (travel from the depot, wait for the window to open, serve, travel on),
    independent of VRPState.compute_arrival_times."""
    r = st.routes[v]
    D = st._dist if D is None else D
    out = []
    t = None
    for i, c in enumerate(r):
        t = D[0][c] if i == 0 else t + st.customers[r[i - 1]].service_time + D[r[i - 1]][c]
        t = smax(t, st.customers[c].tw_start)
        out.append(t)
    return out


def inv(s, st, n_cust, multi, tag, D=None):
    custs = list(range(1, n_cust + 1))
    on = {c: [v for v, r in enumerate(st.routes) if c in r] for c in custs}
    bad = []
    for c in custs:
        if (c in st.unassigned) == bool(on[c]):
            bad.append(("unassigned-xor-routed", c, on[c], c in st.unassigned))
        if len(on[c]) > multi.get(c, 1):
            bad.append(("on more routes than vehicles required", c, on[c]))
    for v, r in enumerate(st.routes):
        if len(set(r)) != len(r):
            bad.append(("twice on route", v, list(r)))
        if any(c not in custs for c in r):
            bad.append(("unknown customer on route", v, list(r)))
    if any(c not in custs for c in st.unassigned):
        bad.append(("unknown customer unassigned", sorted(st.unassigned)))
    s.check(not bad, tag + ".bookkeeping_invariant", detail=repr(bad[:3]))
    ok_len = len(st.arrival_times) == len(st.routes) and all(len(a) == len(r) for a, r in zip(st.arrival_times, st.routes))
    s.check(ok_len, tag + ".arrival_times_shape", detail=repr([len(a) for a in st.arrival_times]))
    if ok_len and not bad:
        conds = []
        for v in range(len(st.routes)):
            want = ref_arrivals(st, v, D)
            # 1e-9: with concrete coordinates the implementation adds floats where the reference adds exact rationals
            conds += [AND(a - w <= 1e-9, w - a <= 1e-9) for a, w in zip(st.arrival_times[v], want)]
        s.check(AND(conds) if conds else True, tag + ".arrival_times_consistent_with_travel_waiting_service")
    return not bad


def snapshot(st):
    return ([list(r) for r in st.routes], [list(a) for a in st.arrival_times], set(st.unassigned), list(st.customers), list(st.vehicles))


def h_vrp_op(s, op, n_cust, n_veh, multi, routes, unassigned, sync=None, opkw=None):
    vrp = importlib.import_module("solvor.vrp")
    multi = {int(k): v for k, v in multi.items()}
    # sync_assignments is NOT constrained by the invariant (removal operators leave stale entries): arbitrary content in the pre-state
    st = make_state(s, n_cust, n_veh, multi, routes, set(unassigned), sync=sync)
    before = snapshot(st)
    rng = SymRandom(s)
    fn = getattr(vrp, op)
    post = fn(st, rng, **(opkw or {}))  # opkw: the operator's own knob (degree / n_routes / k) away from its default
    after = snapshot(st)
    same = before[0] == after[0] and before[2] == after[2] and all(x is y for x, y in zip(before[3], after[3])) and \
        all(len(a) == len(b) and all(p is q for p, q in zip(a, b)) for a, b in zip(before[1], after[1]))
    s.check(same, "vrp.%s.input_state_not_mutated" % op)
    s.check(post.customers is st.customers or list(post.customers) == list(st.customers), "vrp.%s.customers_unchanged" % op)
    inv(s, post, n_cust, multi, "vrp." + op)
    s.goal("vrp." + op)
    if any(len([v for v, r in enumerate(routes) if c in r]) == 2 for c in multi):
        s.goal("vrp.multi_on_two_routes")
    s.observe("routes", [list(r) for r in post.routes])
    s.observe("unassigned", sorted(post.unassigned))


def h_vrp_objective(s, n_cust, n_veh, multi, routes, unassigned):
    vrp = importlib.import_module("solvor.vrp")
    multi = {int(k): v for k, v in multi.items()}
    st = make_state(s, n_cust, n_veh, multi, routes, set(unassigned))
    w = {k: s.real("w_" + k, 0, None) for k in ("distance", "vehicle", "tw", "capacity", "sync", "unassigned")}
    got = vrp.vrp_objective(st, distance_weight=w["distance"], vehicle_weight=w["vehicle"], tw_penalty=w["tw"], capacity_penalty=w["capacity"],
                            sync_penalty=w["sync"], unassigned_penalty=w["unassigned"])
    s.check(AND([AND(a - b <= 1e-9, b - a <= 1e-9) for v in range(len(st.routes)) for a, b in zip(st.arrival_times[v], ref_arrivals(st, v))] or [True]),
            "vrp.update_arrival_times_matches_documented_recurrence")
    want = documented_objective(st, multi, w)
    s.check(got == want, "vrp.objective_is_documented_weighted_sum")
    s.goal("vrp.objective")
    s.observe("obj", got)


def documented_objective(st, multi, w, with_arrivals=None, D=None):
    """distance_weight * total distance + vehicle_weight * #used vehicles + tw_penalty * lateness + capacity_penalty * overload +
    sync_penalty * (missing vehicles * 1000 + spread of arrivals) + unassigned_penalty * #unassigned, written from the documentation."""
    D = st._dist if D is None else D
    arr = with_arrivals if with_arrivals is not None else st.arrival_times
    dist = 0
    for r in st.routes:
        if r:
            dist = dist + D[0][r[0]] + ssum(D[a][b] for a, b in zip(r, r[1:])) + D[r[-1]][0]
    used = sum(1 for r in st.routes if r)
    tw = 0
    for v, r in enumerate(st.routes):
        for i, c in enumerate(r):
            if not isinstance(st.customers[c].tw_end, SNum) and st.customers[c].tw_end == float("inf"):
                continue
            late = arr[v][i] - st.customers[c].tw_end
            tw = tw + ITE(late > 0, late, 0)
    cap = 0
    for v, r in enumerate(st.routes):
        over = ssum(st.customers[c].demand for c in r) - st.vehicles[v].capacity
        cap = cap + ITE(over > 0, over, 0)
    sync = 0
    for c, k in multi.items():
        if k <= 1:
            continue
        times = [arr[v][r.index(c)] for v, r in enumerate(st.routes) if c in r]
        if len(times) < k:
            sync = sync + (k - len(times)) * 1000.0
        elif len(times) > 1:
            hi, lo = times[0], times[0]
            for t in times[1:]:
                hi = ITE(t > hi, t, hi)
                lo = ITE(t < lo, t, lo)
            sync = sync + (hi - lo)
    return (w["distance"] * dist + w["vehicle"] * used + w["tw"] * tw + w["capacity"] * cap + w["sync"] * sync +
            w["unassigned"] * len(st.unassigned))


VRPTW_CASES = {
    # customers as tuples of every accepted length (id, x, y[, demand[, tw_start[, tw_end[, service[, required_vehicles]]]]]) or Customer objects;
    # "S:name" marks a symbolic non-negative Real; coordinates stay concrete (hypot)
    "tuples": {"customers": [(1, 3.0, 0.0), (2, 0.0, 4.0, "S:demand2", "S:tws2", "S:twe2", "S:svc2", 2), (3, 3.0, 4.0, "S:demand3", 1.0, "S:twe3")],
               "vehicles": 2, "capacity": "S:capacity"},
    "objects": {"customers": [("C", 1, 1.0, 1.0, "S:demand1", 0.0, "S:twe1", "S:svc1", 1), ("C", 2, 2.0, 0.0, 1.0, "S:tws2", 9.0, 0.5, 2)],
                "vehicles": ["S:cap0", "S:cap1", "S:cap2"], "capacity": None},
    "concrete": {"customers": [(1, 3.0, 0.0, 2.0, 0.0, 4.0, 1.0), (2, 0.0, 4.0, 3.0, 2.0, 9.0, 0.5, 2), (3, 3.0, 4.0, 4.0, 1.0, 6.0), (4, 1.0, 1.0, 1.0)],
                 "vehicles": 2, "capacity": 6.0},
}


def h_vrptw(s, case, max_iter, weights_symbolic=True):
    """The public entry point itself: input normalisation (tuples of every length, int or list fleets), which operators it hands to alns, the
    penalty weights it forwards, and what it finally reports. Random streams (solve_vrptw's and alns's) are symbolic draws."""
    vrp = importlib.import_module("solvor.vrp")
    lns = importlib.import_module("solvor.lns")
    from checks.c19 import ExpStub
    spec = VRPTW_CASES[case]
    syms = {}

    def val(x):
        if isinstance(x, str) and x.startswith("S:"):
            if x not in syms:
                syms[x] = s.real(x[2:], 0, None)
            return syms[x]
        return x

    customers, expect = [], {}
    for c in spec["customers"]:
        if c[0] == "C":
            f = [val(x) for x in c[1:]]
            customers.append(vrp.Customer(*f))
        else:
            f = [val(x) for x in c]
            customers.append(tuple(f))
        full = f + [0.0, 0.0, float("inf"), 0.0, 1][len(f) - 3:]
        expect[f[0]] = full
    for c in expect.values():  # documented input: a window opens no later than it closes
        if (isinstance(c[4], SNum) or isinstance(c[5], SNum)) and c[5] != float("inf"):
            s.assume(c[4] <= c[5])
    import math
    pts = [(0.0, 0.0)] + [(expect[i][1], expect[i][2]) for i in range(1, len(expect) + 1)]
    Dref = [[math.hypot(a[0] - b[0], a[1] - b[1]) for b in pts] for a in pts]
    if isinstance(spec["vehicles"], int):
        vehicles, caps = spec["vehicles"], [val(spec["capacity"])] * spec["vehicles"]
        kw = {"vehicle_capacity": caps[0]}
    else:
        caps = [val(x) for x in spec["vehicles"]]
        vehicles, kw = [vrp.Vehicle(i, cp) for i, cp in enumerate(caps)], {}
    names = ("distance", "vehicle", "tw", "capacity", "sync")
    if weights_symbolic:
        w = {k: s.real("w_" + k, 0, None) for k in names}
    else:
        w = {"distance": 1.0, "vehicle": 0.0, "tw": 1000.0, "capacity": 1000.0, "sync": 10000.0}
    w["unassigned"] = 100000.0  # vrp_objective's documented default; solve_vrptw has no knob for it
    sr = SymRandom(s)
    s.patch(vrp, Random=sr)
    s.patch(lns, Random=sr, exp=ExpStub(s))
    if weights_symbolic:
        res = vrp.solve_vrptw(customers, vehicles, depot=(0.0, 0.0), distance_weight=w["distance"], vehicle_weight=w["vehicle"], tw_penalty=w["tw"],
                              capacity_penalty=w["capacity"], sync_penalty=w["sync"], max_iter=max_iter, max_no_improve=3, seed=1, **kw)
    else:
        res = vrp.solve_vrptw(customers, vehicles, depot=(0.0, 0.0), max_iter=max_iter, max_no_improve=3, seed=1, **kw)
    st = res.solution
    ok = isinstance(st, vrp.VRPState) and len(st.routes) == len(caps) and len(st.customers) == len(expect) + 1
    s.check(ok, "vrptw.returns_a_state_for_the_given_fleet_and_customers", detail=repr(st)[:200])
    if not ok:
        return
    # input normalisation: every field lands where the documentation says, defaults for the omitted ones
    bad = []
    for cid, f in expect.items():
        c = st.customers[cid]
        got = [c.id, c.x, c.y, c.demand, c.tw_start, c.tw_end, c.service_time, c.required_vehicles]
        for name, g, e in zip(("id", "x", "y", "demand", "tw_start", "tw_end", "service_time", "required_vehicles"), got, f):
            same = (g is e) if (isinstance(g, SNum) or isinstance(e, SNum)) else (g == e)
            if not same:
                bad.append((cid, name))
    s.check(not bad, "vrptw.customer_fields_as_documented", detail=repr(bad))
    s.check(AND([v.capacity is cp if isinstance(cp, SNum) else v.capacity == cp for v, cp in zip(st.vehicles, caps)]), "vrptw.vehicle_capacities_as_given")
    multi = {cid: f[7] for cid, f in expect.items()}
    if inv(s, st, len(expect), multi, "vrptw", D=Dref):
        arr = [ref_arrivals(st, v, Dref) for v in range(len(st.routes))]
        want = documented_objective(st, multi, w, with_arrivals=arr, D=Dref)
        # coordinates are concrete floats: the implementation rounds where the reference is exact, and a large weight amplifies that
        # (all terms are non-negative): tolerance relative to the weighted sum plus the weights themselves
        tol = 1e-9 * (want + ssum(w.values())) + 1e-9
        s.check(AND(res.objective - want <= tol, want - res.objective <= tol), "vrptw.objective_is_documented_weighted_sum_of_returned_state")
    s.goal("vrptw.top")
    if any(len([1 for r in st.routes if c in r]) >= 2 for c, k in multi.items() if k > 1):
        s.goal("vrptw.multi_served")
    s.observe("routes", [list(r) for r in st.routes])
    s.observe("unassigned", sorted(st.unassigned))
    s.observe("objective", res.objective)


def h_vrp_base(s, n_cust, n_veh):
    vrp = importlib.import_module("solvor.vrp")
    customers = [vrp.Customer(0, 0.0, 0.0)] + [vrp.Customer(c, float(c), 1.0, 1.0, 0.0, 10.0, 0.5, 2 if c == 1 else 1) for c in range(1, n_cust + 1)]
    vehicles = [vrp.Vehicle(v, 5.0) for v in range(n_veh)]
    st = vrp.VRPState.from_problem(customers, vehicles)
    s.check(st.unassigned == set(range(1, n_cust + 1)) and all(r == [] for r in st.routes) and all(a == [] for a in st.arrival_times) and
            len(st.routes) == n_veh, "vrp.from_problem_establishes_invariant")
    s.observe("n", len(st.routes))


OPS = ["random_removal", "worst_removal", "related_removal", "route_removal", "sync_removal", "greedy_insertion", "regret_insertion", "sync_aware_insertion"]
HEAVY = {"regret_insertion", "greedy_insertion", "sync_aware_insertion", "worst_removal"}

JS_SHAPES = {
    "2x2": [[[0, 1], [1, 0]], [[0, 0], [0, 1]], [[0, 1], [0, 1]], [[1, 1], [1, 0]], [[0, 2], [2, 0]], [[0, 1], [2, 1]], [[0, 0], [0, 0]], [[1, 0], [1, 0]],
            [[0, 3], [3, 0]], [[4, 1], [1, 4]]],  # machine indices with gaps ("any machine indices")
    "3x2": [[[0, 1], [1, 0], [0, 1]], [[0, 1], [1, 2], [2, 0]], [[0, 0], [1, 1], [0, 1]], [[0, 1], [0, 1], [0, 1]], [[2, 0], [0, 2], [1, 0]],
            [[0, 1], [1, 0], [1, 1]], [[0, 2], [0, 2], [2, 0]], [[1, 0], [0, 0], [0, 1]]],
    "2x3": [[[0, 1, 2], [2, 1, 0]], [[0, 1, 0], [1, 0, 1]], [[0, 0, 1], [1, 1, 0]], [[0, 1, 2], [0, 1, 2]], [[0, 1, 1], [1, 0, 0]],
            [[2, 0, 1], [0, 2, 1]], [[0, 0, 0], [0, 1, 0]], [[1, 2, 1], [2, 1, 2]]],
    "3x3": [[[0, 1, 2], [1, 2, 0], [2, 0, 1]], [[0, 1, 0], [1, 0, 1], [0, 0, 1]], [[0, 1, 2], [0, 1, 2], [0, 1, 2]]],
}


def items(tier, rng):
    out = []
    q = tier == "quick"
    cap = 120 if q else 1500
    for shape, lst in JS_SHAPES.items():
        if shape == "3x3" and q:
            continue
        for mi, machines in enumerate(lst):
            for rule in ("fifo", "spt", "lpt", "mwkr", "random"):
                if q and mi >= 4 and rule in ("lpt", "mwkr"):
                    continue
                out.append({"name": "js_%s_%s" % (shape, rule), "harness": "h_jobshop", "max_paths": cap, "spread": rng.randrange(1 << 30),
                            "params": {"machines": machines, "rule": rule, "local_search": False, "max_iter": 0}})
            for rule in (("spt", "random") if mi % 2 == 0 else ("fifo",)):
                out.append({"name": "js_ls_%s_%s" % (shape, rule), "harness": "h_jobshop", "max_paths": cap, "spread": rng.randrange(1 << 30),
                            "params": {"machines": machines, "rule": rule, "local_search": True, "max_iter": 2 if q else 3}})
    for k, machines in enumerate(JS_SHAPES["2x2"][:4] + JS_SHAPES["3x2"][:2]):
        out.append({"name": "js_stop", "harness": "h_jobshop", "max_paths": cap, "spread": rng.randrange(1 << 30),
                    "params": {"machines": machines, "rule": ("spt", "random")[k % 2], "local_search": True, "max_iter": 3, "stop": 1 + k % 2}})
    out.append({"name": "vrp_base", "harness": "h_vrp_base", "params": {"n_cust": 3, "n_veh": 2}})
    multi = {"1": 2}
    states = list(enumerate_states(3, 2, {1: 2}))
    for si, (routes, un) in enumerate(states):
        for op in OPS:
            if q and op in HEAVY and si % 3 != 0:
                continue
            out.append({"name": "vrp_" + op, "harness": "h_vrp_op", "max_paths": 120 if q else 1200, "spread": rng.randrange(1 << 30),
                        "params": {"op": op, "n_cust": 3, "n_veh": 2, "multi": multi, "routes": routes, "unassigned": sorted(un)}})
            if op in ("sync_aware_insertion", "sync_removal", "route_removal") or not q:
                # stale / arbitrary sync_assignments entry for the multi-vehicle customer
                out.append({"name": "vrp_stale_" + op, "harness": "h_vrp_op", "max_paths": 120 if q else 1200, "spread": rng.randrange(1 << 30),
                            "params": {"op": op, "n_cust": 3, "n_veh": 2, "multi": multi, "routes": routes, "unassigned": sorted(un),
                                       "sync": {"1": [0, 1]}}})
        # operator knobs away from their defaults: removal degree (how many customers go), number of routes emptied, regret depth
        if si % (3 if q else 1) == 1:
            for op, opkw in (("random_removal", {"degree": 1.0}), ("worst_removal", {"degree": 0.6}), ("related_removal", {"degree": 1.0}),
                             ("route_removal", {"n_routes": 2}), ("regret_insertion", {"k": 3}), ("regret_insertion", {"k": 1})):
                out.append({"name": "vrp_knob_" + op, "harness": "h_vrp_op", "max_paths": 120 if q else 1200, "spread": rng.randrange(1 << 30),
                            "params": {"op": op, "n_cust": 3, "n_veh": 2, "multi": multi, "routes": routes, "unassigned": sorted(un), "opkw": opkw}})
        if si % (4 if q else 1) == 0:
            out.append({"name": "vrp_objective", "harness": "h_vrp_objective",
                        "params": {"n_cust": 3, "n_veh": 2, "multi": multi, "routes": routes, "unassigned": sorted(un)}})
    # a customer that needs THREE vehicles: the synchronisation spread is max - min over all visits, whichever vehicle is early or late
    tri = [(r, u) for (r, u) in enumerate_states(2, 3, {1: 3}) if sum(1 in x for x in r) >= 2]
    full = [t for t in tri if sum(1 in x for x in t[0]) == 3]
    for routes, un in (full + rng.sample([t for t in tri if t not in full], 3) if q else tri):
        out.append({"name": "vrp_objective3", "harness": "h_vrp_objective",
                    "params": {"n_cust": 2, "n_veh": 3, "multi": {"1": 3}, "routes": routes, "unassigned": sorted(un)}})
    # the public entry point end to end (input normalisation, operator set, forwarded weights, reported objective)
    for case in VRPTW_CASES:
        for mi in (1, 3):
            for wsym in (True, False):
                out.append({"name": "vrptw_%s_%d" % (case, mi), "harness": "h_vrptw", "max_paths": 150 if q else 1500, "spread": rng.randrange(1 << 30),
                            "params": {"case": case, "max_iter": mi, "weights_symbolic": wsym}})
    if not q:
        for routes, un in rng.sample(tri, 12):
            for op in OPS:
                out.append({"name": "vrp3_" + op, "harness": "h_vrp_op", "max_paths": 1500, "spread": rng.randrange(1 << 30),
                            "params": {"op": op, "n_cust": 2, "n_veh": 3, "multi": {"1": 3}, "routes": routes, "unassigned": sorted(un)}})
        big = list(enumerate_states(4, 3, {1: 2, 2: 2}))
        for routes, un in rng.sample(big, 60):
            for op in OPS:
                out.append({"name": "vrp4_" + op, "harness": "h_vrp_op", "max_paths": 1500, "spread": rng.randrange(1 << 30),
                            "params": {"op": op, "n_cust": 4, "n_veh": 3, "multi": {"1": 2, "2": 2}, "routes": routes, "unassigned": sorted(un)}})
    return out


KNOWN_CLASSES = {}

"""C12 - Rust and Python back-ends observably equivalent.

Two layers (see DESIGN.md, section 4/C12 and 6):
 (a) decided symbolically: the routing decorator, the nine adapters (pre-/post-processing) and the Python back-ends. The compiled kernel is
     replaced by a TWIN module whose functions return, in the kernel's dict format, what the Python reference computes on the arguments the
     adapter passes. Edge weights are unbounded SMT Reals, edge presence symbolic Bools.
 (b) NOT decided symbolically: the Rust kernels. The extension is rebuilt from /repo/rust, loaded as solvor._solvor_rust, and the witness of
     EVERY explored path is run through backend='rust', backend='python' and the default back-end natively; any disagreement (in the sense of
     the property) is a reproduced violation ("native:" obligations). This half is solver-generated path-covering testing, not a for-all verdict.
"""

import importlib
import importlib.machinery
import importlib.util
import itertools
import os
import shutil
import subprocess
import sys
import tempfile
import types

from symx.core import AND, OR, NOT, IMPLIES, ITE, IFF, SNum, SBool, ssum, INF

PROPERTY = "C12"
FILES = ["solvor/rust/__init__.py", "solvor/rust/adapters.py", "rust/src/lib.rs", "solvor/floyd_warshall.py", "solvor/bellman_ford.py",
         "solvor/dijkstra.py", "solvor/bfs.py", "solvor/mst.py", "solvor/pagerank.py", "solvor/scc.py"]
FUNCTIONS = ["solvor.rust.with_rust_backend / get_backend / rust_adapter", "solvor.rust.adapters._*_rust (all nine adapters)",
             "Python back-ends of floyd_warshall, bellman_ford, dijkstra_edges, bfs_edges, dfs_edges, kruskal, pagerank_edges, "
             "strongly_connected_components_edges, topological_sort_edges", "rust kernels: witness replay only (kernel_level: witness-replay)"]
BOUNDS = {
    "quick": "n=3 nodes (n=4 for two named lists): weighted functions on 10 edge lists with duplicate, anti-parallel and self-loop edges, weights unbounded "
             "Reals (non-negative for dijkstra), directed and undirected, with and without target; unweighted functions on every digraph over 3 "
             "nodes incl. self loops (edge presence symbolic); pagerank with damping in (0,1), max_iter 2; the extension rebuilt from /repo/rust",
    "thorough": "n=4 with 14 edge lists; unweighted functions on all loop-free digraphs over 4 nodes",
}
OUTSIDE = ("the Rust kernels for inputs other than the path witnesses (no Rust verifier in the sandbox; MIR->SMT for Vec/BinaryHeap/pyo3 code is out of reach); "
           "larger graphs; invalid inputs (node indices out of range)")
ASSUMPTIONS = ["twin kernel = Python reference re-packed in the kernel's dict format: an assumption about the kernel that is VALIDATED on every path witness "
               "against the rebuilt extension, not trusted",
               "equivalence is the property's: same status; identical distances / reachability / total weight / partition; paths and orders valid for the same "
               "problem; PageRank within 10*tol"]
STUBS = ["solvor.rust.get_rust_module := twin module (symbolic layer only)"]
GOALS = {"quick": ["fw.undirected_dup", "bf.target", "dijkstra.target", "bfs.explore", "dfs.target", "kruskal", "pagerank", "scc", "topo", "native.kernel_compared"],
         "thorough": ["native.kernel_compared"]}
OPTS = {"quick": {"path_wall": 30.0}, "thorough": {"path_wall": 60.0}}

_EXT = {"path": None, "error": None}


def build_and_load_extension():
    """cargo build --release --offline from /repo/rust into a scratch dir; load it as solvor._solvor_rust BEFORE solvor is imported."""
    if _EXT["path"] or _EXT["error"]:
        return
    if "solvor" in sys.modules:
        _EXT["error"] = "solvor imported before the rebuilt extension could be installed"
        return
    scratch = tempfile.mkdtemp(prefix="c12_build_")
    try:
        env = dict(os.environ, CARGO_NET_OFFLINE="true", CARGO_TARGET_DIR=os.path.join(scratch, "target"))
        r = subprocess.run(["cargo", "build", "--release", "--offline"], cwd=os.path.join(os.environ.get("SOLVOR_REPO", "/repo"), "rust"), env=env, capture_output=True, text=True, timeout=900)
        so = os.path.join(scratch, "target", "release", "lib_solvor_rust.so")
        if r.returncode != 0 or not os.path.exists(so):
            _EXT["error"] = "cargo build failed: " + (r.stderr[-400:] if r.stderr else "")
            return
        keep = os.path.join(scratch, "_solvor_rust.so")
        shutil.copy(so, keep)
        shutil.rmtree(os.path.join(scratch, "target"), ignore_errors=True)
        loader = importlib.machinery.ExtensionFileLoader("solvor._solvor_rust", keep)
        spec = importlib.util.spec_from_loader("solvor._solvor_rust", loader, origin=keep)
        mod = importlib.util.module_from_spec(spec)
        loader.exec_module(mod)
        sys.modules["solvor._solvor_rust"] = mod
        import solvor
        solvor._solvor_rust = mod
        _EXT["path"] = keep
        _EXT["scratch"] = scratch
    except Exception as e:  # noqa: BLE001
        _EXT["error"] = "%s: %s" % (type(e).__name__, e)


def cleanup():
    if _EXT.get("scratch"):
        shutil.rmtree(_EXT["scratch"], ignore_errors=True)


# ------------------------------------------------------------------------------------------ twin kernel
def make_twin():
    Status = importlib.import_module("solvor.types").Status
    fw = importlib.import_module("solvor.floyd_warshall").floyd_warshall
    bf = importlib.import_module("solvor.bellman_ford").bellman_ford
    dj = importlib.import_module("solvor.dijkstra").dijkstra_edges
    bfsm = importlib.import_module("solvor.bfs")
    mst = importlib.import_module("solvor.mst").kruskal
    pr = importlib.import_module("solvor.pagerank").pagerank_edges
    scc = importlib.import_module("solvor.scc")
    t = types.SimpleNamespace()

    def t_fw(n, edges):
        r = fw(n, list(edges), directed=True, backend="python")
        return {"has_negative_cycle": r.status == Status.UNBOUNDED, "distances": r.solution, "iterations": r.iterations}

    def t_bf(n, edges, start):
        r = bf(start, list(edges), n, backend="python")
        if r.status == Status.UNBOUNDED:
            # same shape as the kernel: full-length vectors (finite for nodes reachable from start, inf otherwise); the values are unspecified
            seen, todo = {start}, [start]
            while todo:
                u = todo.pop()
                for (a, b, _w) in edges:
                    if a == u and b not in seen:
                        seen.add(b)
                        todo.append(b)
            return {"has_negative_cycle": True, "distances": [0.0 if i in seen else INF for i in range(n)], "predecessors": [-1] * n,
                    "iterations": r.iterations}
        dist = [r.solution.get(i, INF) for i in range(n)]
        pred = [-1] * n
        for v in range(n):
            if v != start and v in r.solution:
                p = bf(start, list(edges), n, target=v, backend="python").solution
                pred[v] = p[-2] if p and len(p) >= 2 else -1
        return {"has_negative_cycle": False, "distances": dist, "predecessors": pred, "iterations": r.iterations}

    def t_dj(n, edges, source, target):
        if target is not None:
            r = dj(n, list(edges), source, target=target, backend="python")
            return {"target_reached": r.solution is not None, "path": r.solution or [], "target_distance": r.objective, "iterations": r.iterations,
                    "distances": []}
        r = dj(n, list(edges), source, backend="python")
        return {"target_reached": False, "path": [], "target_distance": INF, "iterations": r.iterations,
                "distances": [r.solution.get(i, INF) for i in range(n)]}

    def t_search(fn):
        def f(n, edges, source, target):
            if target is not None:
                r = fn(n, list(edges), source, target=target, backend="python")
                return {"target_reached": r.solution is not None, "path": r.solution or [], "visited_order": [], "iterations": r.iterations}
            r = fn(n, list(edges), source, backend="python")
            return {"target_reached": False, "path": [], "visited_order": list(r.solution), "iterations": r.iterations}
        return f

    def t_kruskal(n, edges):
        r = mst(n, list(edges), allow_forest=True, backend="python")
        return {"mst_edges": list(r.solution), "total_weight": r.objective, "is_connected": r.status == Status.OPTIMAL, "iterations": r.iterations}

    def t_pr(n, edges, damping, max_iter, tol):
        r = pr(n, list(edges), damping=damping, max_iter=max_iter, tol=tol, backend="python")
        return {"scores": [r.solution[i] for i in range(n)], "converged": r.status == Status.OPTIMAL, "iterations": r.iterations}

    def t_scc(n, edges):
        r = scc.strongly_connected_components_edges(n, list(edges), backend="python")
        return {"components": r.solution, "n_components": r.objective}

    def t_topo(n, edges):
        r = scc.topological_sort_edges(n, list(edges), backend="python")
        return {"is_acyclic": r.solution is not None, "order": r.solution or [], "iterations": r.iterations}

    t.floyd_warshall, t.bellman_ford, t.dijkstra, t.kruskal, t.pagerank = t_fw, t_bf, t_dj, t_kruskal, t_pr
    t.bfs, t.dfs = t_search(bfsm.bfs_edges), t_search(bfsm.dfs_edges)
    t.strongly_connected_components, t.topological_sort = t_scc, t_topo
    return t


# ------------------------------------------------------------------------------------------ comparison in the property's sense
def eqnum(a, b, tol=0):
    if (not isinstance(a, SNum) and a == INF) or (not isinstance(b, SNum) and b == INF):
        return (not isinstance(a, SNum) and a == INF) and (not isinstance(b, SNum) and b == INF)
    if tol:
        d = a - b
        return AND(d <= tol, -d <= tol)
    return a == b


def path_ok(path, edges, src, dst, objective, weighted):
    """path is a genuine src->dst path over `edges` whose best parallel-edge weights sum to objective (weighted) / length (unweighted)."""
    if not isinstance(path, list) or not path or path[0] != src or path[-1] != dst:
        return False
    conds = []
    for a, b in zip(path, path[1:]):
        ws = [e[2] if weighted else 1 for e in edges if (e[0], e[1]) == (a, b)]
        if not ws:
            return False
        if weighted:
            conds.append(ws)
    if not weighted:
        return True if objective is None else objective == len(path) - 1
    alts = [eqnum(objective, ssum(c), 1e-9) for c in itertools.product(*conds)] if conds else [eqnum(objective, 0, 1e-9)]
    return OR(alts)


def compare(s, func, tag, rp, rr, args):
    """rp: python result, rr: other back-end result."""
    Status = importlib.import_module("solvor.types").Status
    s.check(rp.status == rr.status, tag + ".same_status", detail={"python": str(rp.status), "other": str(rr.status)})
    if rp.status != rr.status:
        return
    n, edges = args["n"], args["edges"]
    if func == "floyd_warshall":
        if rp.solution is None:
            return
        ok = isinstance(rr.solution, list) and len(rr.solution) == n
        s.check(ok and AND([eqnum(rp.solution[i][j], rr.solution[i][j], 1e-9) for i in range(n) for j in range(n)]), tag + ".identical_distances")
    elif func in ("bellman_ford", "dijkstra_edges"):
        if rp.solution is None:
            return
        if args.get("target") is None:
            ok = isinstance(rr.solution, dict) and set(rr.solution) == set(rp.solution)
            s.check(ok and AND([eqnum(rp.solution[k], rr.solution[k], 1e-9) for k in rp.solution]), tag + ".identical_distances")
        else:
            s.check(eqnum(rp.objective, rr.objective, 1e-9), tag + ".identical_distance_to_target")
            eff = list(edges)
            s.check(path_ok(rr.solution, eff, args["source"], args["target"], rr.objective, True), tag + ".path_valid_for_the_same_problem",
                    detail=repr(rr.solution))
    elif func in ("bfs_edges", "dfs_edges"):
        if args.get("target") is None:
            s.check(isinstance(rr.solution, list) and rr.solution == rp.solution, tag + ".identical_reachability", detail={"python": rp.solution, "other": rr.solution})
        elif rp.solution is not None:
            if func == "bfs_edges":
                s.check(rp.objective == rr.objective, tag + ".identical_path_length")
            s.check(path_ok(rr.solution, [(a, b, 1) for (a, b) in edges], args["source"], args["target"], rr.objective, False),
                    tag + ".path_valid_for_the_same_problem", detail=repr(rr.solution))
    elif func == "kruskal":
        if rp.solution is None:
            return
        s.check(eqnum(rp.objective, rr.objective, 1e-9), tag + ".identical_total_weight")
        s.check(isinstance(rr.solution, list) and len(rr.solution) == len(rp.solution), tag + ".same_number_of_edges")
    elif func == "pagerank_edges":
        tol = args["tol"]
        s.check(isinstance(rr.solution, dict) and set(rr.solution) == set(rp.solution) and
                AND([eqnum(rp.solution[k], rr.solution[k], 10 * tol + 1e-9) for k in rp.solution]), tag + ".scores_equal_within_tolerance")
    elif func == "strongly_connected_components_edges":
        pa = {frozenset(c) for c in rp.solution}
        pb = {frozenset(c) for c in (rr.solution or [])}
        s.check(pa == pb, tag + ".identical_partition", detail={"python": rp.solution, "other": rr.solution})
        idx = {x: i for i, c in enumerate(rr.solution or []) for x in c}
        s.check(all(idx.get(v, -1) <= idx.get(u, -1) for (u, v) in edges if u in idx and v in idx), tag + ".order_valid_sinks_first")
    elif func == "topological_sort_edges":
        if rp.solution is None:
            return
        od = rr.solution
        ok = isinstance(od, list) and sorted(od) == list(range(n))
        s.check(ok and all(od.index(u) < od.index(v) for (u, v) in edges), tag + ".order_valid_for_the_same_problem", detail=repr(od))


def call(func, backend, args):
    mods = {"floyd_warshall": "solvor.floyd_warshall", "bellman_ford": "solvor.bellman_ford", "dijkstra_edges": "solvor.dijkstra", "bfs_edges": "solvor.bfs",
            "dfs_edges": "solvor.bfs", "kruskal": "solvor.mst", "pagerank_edges": "solvor.pagerank", "strongly_connected_components_edges": "solvor.scc",
            "topological_sort_edges": "solvor.scc"}
    fn = getattr(importlib.import_module(mods[func]), func)
    kw = {} if backend is None else {"backend": backend}
    n, edges = args["n"], list(args["edges"])
    if func == "floyd_warshall":
        return fn(n, edges, directed=args["directed"], **kw)
    if func == "bellman_ford":
        return fn(args["source"], edges, n, target=args.get("target"), **kw)
    if func in ("dijkstra_edges", "bfs_edges", "dfs_edges"):
        return fn(n, edges, args["source"], target=args.get("target"), **kw)
    if func == "kruskal":
        return fn(n, edges, allow_forest=args["allow_forest"], **kw)
    if func == "pagerank_edges":
        return fn(n, edges, damping=args["damping"], max_iter=args["max_iter"], tol=args["tol"], **kw)
    return fn(n, edges, **kw)


def h_equiv(s, func, n, pot, weighted, sym_presence, source=0, target=None, directed=True, allow_forest=False):
    rust_pkg = importlib.import_module("solvor.rust")
    importlib.import_module("solvor.rust.adapters")
    wk = "nonneg" if func == "dijkstra_edges" else "any"
    edges = []
    for k, (u, v) in enumerate(pot):
        if sym_presence and not bool(s.bool("p%d" % k)):
            continue
        if weighted:
            w = s.real("w%d" % k, 0 if wk == "nonneg" else None, None)
            edges.append((u, v, w))
        else:
            edges.append((u, v))
    args = {"n": n, "edges": edges, "source": source, "target": target, "directed": directed, "allow_forest": allow_forest}
    if func == "pagerank_edges":
        args.update(damping=s.real("damping", 0, 1, lo_strict=True, hi_strict=True), tol=s.real("tol", 1e-9, None), max_iter=2)
    rp = call(func, "python", args)
    # (a) adapter + routing with the twin kernel
    twin = make_twin()
    s.patch(rust_pkg, get_rust_module=lambda: twin)
    adapters = importlib.import_module("solvor.rust.adapters")
    s.patch(adapters, get_rust_module=lambda: twin)
    rt = call(func, "rust", args)
    compare(s, func, "adapter+twin", rp, rt, args)
    s._restore()
    tagmap = {"floyd_warshall": "fw.undirected_dup" if not directed else "fw", "bellman_ford": "bf.target" if target is not None else "bf",
              "dijkstra_edges": "dijkstra.target" if target is not None else "dijkstra", "bfs_edges": "bfs.explore" if target is None else "bfs",
              "dfs_edges": "dfs.target" if target is not None else "dfs", "kruskal": "kruskal", "pagerank_edges": "pagerank",
              "strongly_connected_components_edges": "scc", "topological_sort_edges": "topo"}
    s.goal(tagmap[func])
    s.observe("status", int(rp.status))
    # (b) the real rebuilt kernel, natively, on this path's witness
    if not s.symbolic:
        if _EXT["path"] is None:
            s.check(False, "native:extension_rebuilt_and_loaded", detail=_EXT["error"])
            return
        rr = call(func, "rust", args)
        compare(s, func, "native:rust_vs_python", rp, rr, args)
        rd = call(func, None, args)
        compare(s, func, "native:default_vs_python", rp, rd, args)
        s.goal("native.kernel_compared")


W3 = {
    "dup_antipar": (3, [(0, 1), (0, 1), (1, 0), (1, 2), (0, 2)]),
    "selfloop": (3, [(0, 0), (0, 1), (1, 2), (2, 2)]),
    "cycle": (3, [(0, 1), (1, 2), (2, 0), (0, 2)]),
    "rev_dups": (3, [(1, 0), (0, 1), (2, 1), (1, 2), (1, 2)]),
    "isolated": (3, [(0, 1), (1, 0)]),
    "chain": (3, [(0, 1), (1, 2)]),
    "empty": (3, []),
    "fan4": (4, [(0, 1), (0, 2), (1, 3), (2, 3), (0, 3), (3, 0)]),
    "two_comp4": (4, [(0, 1), (1, 0), (2, 3), (3, 2), (3, 2)]),
    "tri_dup": (3, [(0, 1), (1, 2), (0, 2), (2, 0), (0, 2)]),
}


def items(tier, rng):
    build_and_load_extension()
    out = []
    q = tier == "quick"
    cap = 120 if q else 2000
    for nm, (n, pot) in W3.items():
        for directed in (True, False):
            out.append({"name": "fw_" + nm, "harness": "h_equiv", "max_paths": cap, "extra_witness": True,
                        "params": {"func": "floyd_warshall", "n": n, "pot": pot, "weighted": True, "sym_presence": False, "directed": directed}})
        for target in (None, n - 1):
            for func in ("bellman_ford", "dijkstra_edges"):
                out.append({"name": func + "_" + nm, "harness": "h_equiv", "max_paths": cap, "extra_witness": True,
                            "params": {"func": func, "n": n, "pot": pot, "weighted": True, "sym_presence": False, "target": target}})
        # node 0 as the TARGET (from the last node): 0 is falsy, "no target" must be `is None`
        for func in ("bellman_ford", "dijkstra_edges"):
            out.append({"name": func + "_to0_" + nm, "harness": "h_equiv", "max_paths": cap, "extra_witness": True,
                        "params": {"func": func, "n": n, "pot": pot, "weighted": True, "sym_presence": False, "source": n - 1, "target": 0}})
        for af in (False, True):
            out.append({"name": "kruskal_" + nm, "harness": "h_equiv", "max_paths": cap, "extra_witness": True,
                        "params": {"func": "kruskal", "n": n, "pot": pot, "weighted": True, "sym_presence": False, "allow_forest": af}})
        out.append({"name": "pagerank_" + nm, "harness": "h_equiv", "max_paths": cap,
                    "params": {"func": "pagerank_edges", "n": n, "pot": pot, "weighted": False, "sym_presence": False}})
    pot3 = [(u, v) for u in range(3) for v in range(3)]
    pot4 = [(u, v) for u in range(4) for v in range(4) if u != v]
    for func in ("bfs_edges", "dfs_edges"):
        for target in (None, 2):
            out.append({"name": func, "harness": "h_equiv", "split": 5,
                        "params": {"func": func, "n": 3, "pot": pot3 + [(0, 1), (2, 1)], "weighted": False, "sym_presence": True, "target": target}})
        out.append({"name": func + "_to0", "harness": "h_equiv", "split": 5,
                    "params": {"func": func, "n": 3, "pot": pot3 + [(0, 1), (2, 1)], "weighted": False, "sym_presence": True, "source": 2, "target": 0}})
    for func in ("strongly_connected_components_edges", "topological_sort_edges"):
        out.append({"name": func, "harness": "h_equiv", "split": 5, "params": {"func": func, "n": 3, "pot": pot3 + [(1, 0)], "weighted": False, "sym_presence": True}})
        if not q:
            out.append({"name": func + "4", "harness": "h_equiv", "split": 8, "params": {"func": func, "n": 4, "pot": pot4, "weighted": False, "sym_presence": True}})
    return out


def params_from_json(p):
    build_and_load_extension()
    p = dict(p)
    p["pot"] = [tuple(a) for a in p["pot"]]
    return p

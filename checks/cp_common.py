"""Shared program grammar for C05 / C06: CP models built through the PUBLIC constructors and operators, with an independent
reference semantics of the same descriptor as a z3 formula over Int variables."""

import importlib
import itertools

import z3

# ---- linear shapes: the same lambda is applied to IntVar objects (-> solvOR constraint) and to z3 Ints (-> reference formula)
SHAPES = {
    "v?k": (1, 1, lambda v, k, eq: (v[0] == k[0]) if eq else (v[0] != k[0])),
    "v?w": (2, 0, lambda v, k, eq: (v[0] == v[1]) if eq else (v[0] != v[1])),
    "v+k?w": (2, 1, lambda v, k, eq: (v[0] + k[0] == v[1]) if eq else (v[0] + k[0] != v[1])),
    "v-k?w": (2, 1, lambda v, k, eq: (v[0] - k[0] == v[1]) if eq else (v[0] - k[0] != v[1])),
    "k+v?w": (2, 1, lambda v, k, eq: (k[0] + v[0] == v[1]) if eq else (k[0] + v[0] != v[1])),
    "v+w?k": (2, 1, lambda v, k, eq: (v[0] + v[1] == k[0]) if eq else (v[0] + v[1] != k[0])),
    "k?v+w": (2, 1, lambda v, k, eq: (k[0] == v[0] + v[1]) if eq else (k[0] != v[0] + v[1])),
    "v-w?k": (2, 1, lambda v, k, eq: (v[0] - v[1] == k[0]) if eq else (v[0] - v[1] != k[0])),
    "kv?w+k": (2, 2, lambda v, k, eq: (k[0] * v[0] == v[1] + k[1]) if eq else (k[0] * v[0] != v[1] + k[1])),
    "vk?w": (2, 1, lambda v, k, eq: (v[0] * k[0] == v[1]) if eq else (v[0] * k[0] != v[1])),
    "k-v?w": (2, 1, lambda v, k, eq: (k[0] - v[0] == v[1]) if eq else (k[0] - v[0] != v[1])),
    "v+k?w+k": (2, 2, lambda v, k, eq: (v[0] + k[0] == v[1] + k[1]) if eq else (v[0] + k[0] != v[1] + k[1])),
    "w?v+k": (2, 1, lambda v, k, eq: (v[1] == v[0] + k[0]) if eq else (v[1] != v[0] + k[0])),
    "v+w+u?k": (3, 1, lambda v, k, eq: (v[0] + v[1] + v[2] == k[0]) if eq else (v[0] + v[1] + v[2] != k[0])),
    "v+w?u": (3, 0, lambda v, k, eq: (v[0] + v[1] == v[2]) if eq else (v[0] + v[1] != v[2])),
    "v+w?u+k": (3, 1, lambda v, k, eq: (v[0] + v[1] == v[2] + k[0]) if eq else (v[0] + v[1] != v[2] + k[0])),
    "v-w?u": (3, 0, lambda v, k, eq: (v[0] - v[1] == v[2]) if eq else (v[0] - v[1] != v[2])),
    "kv+w?u": (3, 1, lambda v, k, eq: (k[0] * v[0] + v[1] == v[2]) if eq else (k[0] * v[0] + v[1] != v[2])),
    "v+w-k?u": (3, 1, lambda v, k, eq: (v[0] + v[1] - k[0] == v[2]) if eq else (v[0] + v[1] - k[0] != v[2])),
    "kv+w+u?k": (3, 2, lambda v, k, eq: (k[0] * v[0] + v[1] + v[2] == k[1]) if eq else (k[0] * v[0] + v[1] + v[2] != k[1])),
    "v+w?v+k": (2, 1, lambda v, k, eq: (v[0] + v[1] == v[0] + k[0]) if eq else (v[0] + v[1] != v[0] + k[0])),
    "vk?k": (1, 2, lambda v, k, eq: (v[0] * k[0] == k[1]) if eq else (v[0] * k[0] != k[1])),
    "v-v+w?k": (2, 1, lambda v, k, eq: (v[0] - v[0] + v[1] == k[0]) if eq else (v[0] - v[0] + v[1] != k[0])),
    # operators on compound expressions: Expr.__radd__, Expr - Expr, Expr * k, k * Expr, IntVar - Expr, Expr on both sides
    "k+(v+w)?u": (3, 1, lambda v, k, eq: (k[0] + (v[0] + v[1]) == v[2]) if eq else (k[0] + (v[0] + v[1]) != v[2])),
    "(v+w)-(u+k)?k": (3, 2, lambda v, k, eq: ((v[0] + v[1]) - (v[2] + k[0]) == k[1]) if eq else ((v[0] + v[1]) - (v[2] + k[0]) != k[1])),
    "(v+w)k?u": (3, 1, lambda v, k, eq: ((v[0] + v[1]) * k[0] == v[2]) if eq else ((v[0] + v[1]) * k[0] != v[2])),
    "k(v-w)?u": (3, 1, lambda v, k, eq: (k[0] * (v[0] - v[1]) == v[2]) if eq else (k[0] * (v[0] - v[1]) != v[2])),
    "v-(w+k)?u": (3, 1, lambda v, k, eq: (v[0] - (v[1] + k[0]) == v[2]) if eq else (v[0] - (v[1] + k[0]) != v[2])),
    "v+k?wk": (2, 2, lambda v, k, eq: (v[0] + k[0] == v[1] * k[1]) if eq else (v[0] + k[0] != v[1] * k[1])),
    "k-(v+w)?u": (3, 1, lambda v, k, eq: (k[0] - (v[0] + v[1]) == v[2]) if eq else (k[0] - (v[0] + v[1]) != v[2])),
    "v-w?u-v": (3, 0, lambda v, k, eq: (v[0] - v[1] == v[2] - v[0]) if eq else (v[0] - v[1] != v[2] - v[0])),
}


def build_model(prog):
    """-> (model, [IntVar]) built through the public API; raises whatever the API raises."""
    cp = importlib.import_module("solvor.cp")
    m = cp.Model()
    unnamed = set(prog.get("unnamed", ()))  # variables created WITHOUT a name (the library calls them _v<N> and leaves them out of the result dicts)
    xs = [m.int_var(lb, ub) if i in unnamed else m.int_var(lb, ub, "x%d" % i) for i, (lb, ub) in enumerate(prog["vars"])]
    for c in prog["cons"]:
        kind = c[0]
        if kind == "lin":
            _k, shape, idx, consts, eq = c
            con = SHAPES[shape][2]([xs[i] for i in idx], list(consts), eq)
        elif kind == "alldiff":
            con = m.all_different([xs[i] for i in c[1]])
        elif kind == "sum":
            con = getattr(m, "sum_" + c[1])([xs[i] for i in c[2]], c[3])
        elif kind == "circuit":
            con = m.circuit([xs[i] for i in c[1]])
        elif kind == "no_overlap":
            con = m.no_overlap([xs[i] for i in c[1]], list(c[2]))
        elif kind == "cumulative":
            con = m.cumulative([xs[i] for i in c[1]], list(c[2]), list(c[3]), c[4])
        else:
            raise ValueError(kind)
        m.add(con)
    return m, xs


def reference(prog):
    """-> (z3 Int vars, domain formula, constraint formula) written from the documentation of each constraint."""
    zs = [z3.Int("x%d" % i) for i in range(len(prog["vars"]))]
    dom = z3.And([z3.And(zs[i] >= lb, zs[i] <= ub) for i, (lb, ub) in enumerate(prog["vars"])] or [z3.BoolVal(True)])
    fs = []
    for c in prog["cons"]:
        kind = c[0]
        if kind == "lin":
            _k, shape, idx, consts, eq = c
            fs.append(SHAPES[shape][2]([zs[i] for i in idx], list(consts), eq))
        elif kind == "alldiff":
            v = [zs[i] for i in c[1]]
            fs.append(z3.Distinct(*v) if len(v) > 1 else z3.BoolVal(True))
        elif kind == "sum":
            tot = z3.Sum([zs[i] for i in c[2]]) if c[2] else z3.IntVal(0)
            fs.append({"eq": tot == c[3], "le": tot <= c[3], "ge": tot >= c[3]}[c[1]])
        elif kind == "circuit":
            v = [zs[i] for i in c[1]]
            n = len(v)
            if n == 0:
                fs.append(z3.BoolVal(True))
            elif n == 1:
                fs.append(z3.BoolVal(False))  # one node: the only successor is itself, which is a self loop
            else:
                alts = []
                for perm in itertools.permutations(range(1, n)):
                    order = (0,) + perm  # cycle 0 -> perm[0] -> ... -> 0
                    succ = {order[i]: order[(i + 1) % n] for i in range(n)}
                    alts.append(z3.And([v[i] == succ[i] for i in range(n)]))
                fs.append(z3.Or(alts))
        elif kind == "no_overlap":
            v = [zs[i] for i in c[1]]
            d = c[2]
            for i in range(len(v)):
                for j in range(i + 1, len(v)):
                    fs.append(z3.Or(v[i] + d[i] <= v[j], v[j] + d[j] <= v[i]))
        elif kind == "cumulative":
            v = [zs[i] for i in c[1]]
            d, dem, cap = c[2], c[3], c[4]
            lo = min([prog["vars"][i][0] for i in c[1]] or [0])
            hi = max([prog["vars"][i][1] + dd for i, dd in zip(c[1], d)] or [0])
            for t in range(lo, hi):
                load = z3.Sum([z3.If(z3.And(v[i] <= t, t < v[i] + d[i]), dem[i], 0) for i in range(len(v))]) if v else z3.IntVal(0)
                fs.append(load <= cap)
    return zs, dom, z3.And(fs) if fs else z3.BoolVal(True)


def solutions_of(prog, limit=4000):
    zs, dom, phi = reference(prog)
    sol = z3.Solver()
    sol.add(dom, phi)
    out = []
    while sol.check() == z3.sat and len(out) < limit:
        m = sol.model()
        vals = tuple(m.eval(z, model_completion=True).as_long() for z in zs)
        out.append(vals)
        sol.add(z3.Or([z != v for z, v in zip(zs, vals)]))
    return out


# ------------------------------------------------------------------------------------------ program families
DOMS = [(0, 2), (1, 3), (-1, 1), (0, 1), (2, 2), (0, 3)]


def linear_programs(rng, per_shape, nvars_doms=None):
    progs = []
    for shape, (nv, nk, _f) in SHAPES.items():
        for eq in (True, False):
            seen = 0
            tries = 0
            while seen < per_shape and tries < per_shape * 5:
                tries += 1
                doms = [rng.choice(DOMS) for _ in range(3)]
                idx = rng.sample(range(3), nv) if rng.random() < 0.8 else [rng.randrange(3) for _ in range(nv)]
                consts = [rng.choice([-2, -1, 0, 1, 2, 3]) for _ in range(nk)]
                progs.append({"vars": doms, "cons": [("lin", shape, idx, consts, eq)]})
                seen += 1
    return progs


def global_programs(rng, n_each, big=False):
    progs = []
    for _ in range(n_each):
        doms = [rng.choice(DOMS) for _ in range(3)]
        progs.append({"vars": doms, "cons": [("alldiff", rng.sample(range(3), rng.choice([2, 3])))]})
    for kind in ("eq", "le", "ge"):
        for _ in range(n_each):
            nv = rng.choice([3, 4, 5])
            doms = [rng.choice(DOMS[:4]) for _ in range(nv)]
            k = rng.randint(0, nv)
            idx = [rng.randrange(nv) for _ in range(k)] if rng.random() < 0.3 else rng.sample(range(nv), k)
            progs.append({"vars": doms, "cons": [("sum", kind, idx, rng.randint(-2, 7))]})
    # circuit: standard 0..n-1 domains for n = 2..5 and arbitrary successor domains
    for n in (1, 2, 3, 4, 5):
        progs.append({"vars": [(0, n - 1)] * n, "cons": [("circuit", list(range(n)))]})
    for _ in range(n_each):
        n = rng.choice([3, 4, 4, 5])
        doms = []
        for i in range(n):
            lo = rng.randint(-1, 1)
            doms.append((lo, rng.randint(max(lo, 1), n)))
        progs.append({"vars": doms, "cons": [("circuit", list(range(n)))]})
    for _ in range(n_each):
        n = rng.choice([2, 3])
        doms = [(rng.randint(0, 1), rng.randint(2, 4)) for _ in range(n)]
        progs.append({"vars": doms, "cons": [("no_overlap", list(range(n)), [rng.randint(1, 3) for _ in range(n)])]})
    # no_overlap, systematically: two tasks, every ordered pair of start windows from a heterogeneous set (nested, shifted, disjoint,
    # fixed) x duration pairs incl. 0 - the listing order and the window geometry are what a pairwise encoding can get wrong
    WIN = [(0, 2), (0, 4), (1, 3), (2, 4), (3, 5), (1, 1)]
    DUR = [(1, 1), (2, 2), (1, 3), (3, 1), (0, 2), (2, 0), (2, 1)]
    pairs = [(w1, w2, d) for w1 in WIN for w2 in WIN for d in DUR]
    for (w1, w2, d) in pairs:
        progs.append({"vars": [w1, w2], "cons": [("no_overlap", [0, 1], list(d))]})
    for _ in range(n_each):
        n = rng.choice([2, 3, 4])
        doms = []
        for _i in range(n):
            lo = rng.choice([0, 0, 1, 2])
            doms.append((lo, lo + rng.randint(1, 3)))
        progs.append({"vars": doms, "cons": [("cumulative", list(range(n)), [rng.randint(1, 3) for _ in range(n)],
                                              [rng.randint(1, 2) for _ in range(n)], rng.randint(1, 3))]})
    # degenerate global constraints: empty and singleton argument lists, zero durations, a task that alone exceeds the capacity
    for cons in ([("circuit", [])], [("no_overlap", [], [])], [("cumulative", [], [], [], 1)], [("alldiff", [])], [("alldiff", [1])],
                 [("no_overlap", [0], [2])], [("cumulative", [0], [2], [3], 2)], [("cumulative", [1], [0], [3], 2)],
                 [("cumulative", [0, 1], [2, 0], [1, 5], 1)], [("no_overlap", [0, 1], [0, 0])], [("sum", "eq", [2], 1)], [("sum", "ge", [], 0)],
                 [("sum", "le", [1], -5)], [("sum", "eq", [0], 9)]):
        progs.append({"vars": [(0, 2), (1, 2), (0, 1)], "cons": cons})
    # cumulative with more than 10 simultaneously active start literals
    progs.append({"vars": [(0, 3)] * 4, "cons": [("cumulative", [0, 1, 2, 3], [4, 4, 4, 4], [1, 1, 1, 1], 2)]})
    progs.append({"vars": [(0, 5)] * 3, "cons": [("cumulative", [0, 1, 2], [3, 3, 3], [1, 1, 1], 1)]})
    if big:
        progs.append({"vars": [(0, 4)] * 4, "cons": [("cumulative", [0, 1, 2, 3], [5, 5, 5, 5], [2, 1, 1, 1], 2)]})
    return progs


def pair_programs(rng, n):
    """Two constraints: one linear + all_different (the module docstring's own example shape), or two linear."""
    progs = []
    shapes = list(SHAPES)
    for _ in range(n):
        doms = [rng.choice(DOMS + [(0, 5), (0, 4)]) for _ in range(3)]
        s1 = rng.choice(shapes)
        nv, nk, _f = SHAPES[s1]
        c1 = ("lin", s1, rng.sample(range(3), nv), [rng.choice([-1, 0, 1, 2, 3]) for _ in range(nk)], rng.random() < 0.6)
        if rng.random() < 0.5:
            c2 = ("alldiff", [0, 1, 2])
        else:
            s2 = rng.choice(shapes)
            nv2, nk2, _f2 = SHAPES[s2]
            c2 = ("lin", s2, rng.sample(range(3), nv2), [rng.choice([-1, 0, 1, 2]) for _ in range(nk2)], rng.random() < 0.5)
        progs.append({"vars": doms, "cons": [c1, c2]})
    return progs


def mixed_pair_programs(rng, n):
    """A global constraint and a simple one over the same variables, in BOTH orders (solver selection must not depend on order)."""
    progs = []
    shapes = ["v?w", "v+k?w", "v?k", "v+w?k", "v-w?k"]
    for _ in range(n):
        kind = rng.choice(["sum", "sum", "circuit", "no_overlap", "cumulative"])
        if kind == "sum":
            doms = [rng.choice(DOMS[:4]) for _ in range(3)]
            g = ("sum", rng.choice(["eq", "le", "ge"]), [0, 1, 2], rng.randint(0, 6))
        elif kind == "circuit":
            doms = [(0, 2)] * 3
            g = ("circuit", [0, 1, 2])
        elif kind == "no_overlap":
            doms = [(0, 3)] * 3
            g = ("no_overlap", [0, 1, 2], [rng.randint(1, 2) for _ in range(3)])
        else:
            doms = [(0, 3)] * 3
            g = ("cumulative", [0, 1, 2], [rng.randint(1, 2) for _ in range(3)], [1, 1, 1], rng.randint(1, 2))
        s1 = rng.choice(shapes)
        nv, nk, _f = SHAPES[s1]
        simple = ("lin", s1, rng.sample(range(3), nv), [rng.choice([0, 1, 2]) for _ in range(nk)], rng.random() < 0.4) if rng.random() < 0.7 \
            else ("alldiff", [0, 1, 2])
        progs.append({"vars": doms, "cons": [g, simple]})
        progs.append({"vars": doms, "cons": [simple, g]})
    return progs


def zero_weight_programs():
    """Systematic: an equality/disequality in which some variable has net weight 0 (k*0, v - v, the same variable on both sides), followed or
    preceded by a second constraint on that variable - the weightless variable must keep its whole domain."""
    progs = []
    firsts = [("kv+w+u?k", [0, 1, 2], [0, None]), ("kv+w?u", [0, 1, 2], [0]), ("v+w?v+k", [0, 1], [None]), ("v-v+w?k", [0, 1], [None]),
              ("vk?k", [0], [0, 0]), ("kv?w+k", [0, 1], [0, None])]
    seconds = [("lin", "v?k", [0], [0], False), ("lin", "v?k", [0], [2], True), ("lin", "v+w?k", [0, 2], [3], True), ("alldiff", [0, 1, 2]),
               ("lin", "v?w", [0, 2], [], False)]
    for (shape, idx, consts) in firsts:
        for fill in (1, 2):
            ks = [fill if c is None else c for c in consts]
            for eq in (True, False):
                for sec in seconds:
                    for doms in ([(0, 3), (0, 2), (0, 2)], [(0, 2), (1, 2), (0, 3)]):
                        c1 = ("lin", shape, idx, ks, eq)
                        progs.append({"vars": doms, "cons": [c1, sec]})
                        if fill == 1 and eq:
                            progs.append({"vars": doms, "cons": [sec, c1]})
    return progs


def pinned_programs():
    """Systematic: a two-variable ==/!= with a constant offset, then every variable but the first pinned by `== c` and the first one left
    with exactly one admissible value by `!= a` constraints - one program per solution of the first constraint, each with exactly that one
    solution (values that are illegal anyway stay in the domain). A propagator that prunes a legal value (or an encoder that forbids one) turns such a program INFEASIBLE."""
    progs = []
    shapes = [("v+k?w", [0, 1]), ("v-k?w", [0, 1]), ("k+v?w", [0, 1]), ("w?v+k", [0, 1]), ("v+k?w+k", [0, 1]), ("k-v?w", [0, 1]), ("v?w", [0, 1]),
              ("v+k?w", [1, 0])]
    for shape, idx in shapes:
        nk = SHAPES[shape][1]
        for doms in ([(0, 3), (1, 2)], [(1, 2), (0, 3)], [(0, 2), (0, 2)]):
            for k0 in (1, 2):
                ks = [k0, 0][:nk] if nk else []
                for eq in (False, True):
                    first = ("lin", shape, idx, ks, eq)
                    base = {"vars": doms, "cons": [first]}
                    sols = solutions_of(base)
                    for (x0, y0) in sols:
                        # pin the second variable; of the first variable's values that are LEGAL with it keep only x0 (the illegal ones stay in
                        # the domain, so the variable is still open when the constraint is propagated)
                        cons = [first, ("lin", "v?k", [1], [y0], True)]
                        cons += [("lin", "v?k", [0], [a], False) for (a, b) in sols if b == y0 and a != x0]
                        progs.append({"vars": doms, "cons": cons})
    return progs


def unnamed_programs():
    """Models with auxiliary variables that were given no name: the returned dicts list the named variables only, and each of them must
    extend to a full solution; INFEASIBLE still means that NO assignment of all variables exists."""
    progs = []
    D2, D3 = (0, 1), (-1, 1)
    combos = [
        ([(0, 2), D2, D2], {1, 2}, [("lin", "v?w", [1, 2], [], False), ("lin", "v?k", [0], [1], False)]),
        ([(0, 2), D2, D2], {1, 2}, [("lin", "v?k", [0], [1], False), ("lin", "v?w", [1, 2], [], False)]),
        ([(5, 6), (5, 6), D3, D3], {2, 3}, [("alldiff", [2, 3]), ("alldiff", [0, 1])]),
        ([(0, 2), D2, D2], {1, 2}, [("lin", "v+w?u", [1, 2, 0], [], True)]),
        ([(0, 2), D3, D3, D2], {1, 2, 3}, [("alldiff", [1, 2, 3])]),
        ([(0, 3), D2, (0, 2)], {1}, [("lin", "v+k?w", [1, 2], [1], False), ("lin", "v?w", [0, 2], [], True)]),
        ([(0, 1), D2, D2], {1, 2}, [("lin", "v?w", [1, 2], [], False), ("lin", "v+w?u", [1, 2, 0], [], True)]),
        ([(0, 2), (0, 2), (0, 2)], {2}, [("alldiff", [0, 1, 2])]),
        ([(0, 2), D2, D2], {1, 2}, [("sum", "eq", [0, 1, 2], 3)]),
        ([(0, 1), (2, 2), D2], {1, 2}, [("lin", "v?w", [0, 2], [], False)]),
    ]
    for doms, un, cons in combos:
        progs.append({"vars": doms, "unnamed": sorted(un), "cons": cons})
    return progs


def sum_programs():
    """Systematic: sum_eq / sum_le / sum_ge with 1..5 terms over 0/1 and mixed domains, targets in the interior of the reachable range."""
    progs = []
    mixed = [(0, 2), (0, 1), (1, 3), (0, 1), (0, 2)]
    for kind in ("eq", "le", "ge"):
        for k in range(1, 6):
            progs.append({"vars": [(0, 1)] * 5, "cons": [("sum", kind, list(range(k)), (k + 1) // 2)]})
            progs.append({"vars": [(0, 1)] * 5, "cons": [("sum", kind, list(range(5 - k, 5)), max(1, k - 1))]})
            progs.append({"vars": mixed, "cons": [("sum", kind, list(range(k)), sum(lo for lo, _ in mixed[:k]) + 2)]})
            if k >= 3:
                progs.append({"vars": mixed, "cons": [("sum", kind, [0] + list(range(k - 1)), 3)]})  # a repeated variable
    # signed domains (negative lower bounds, domains not starting at 0): every rotation of the variable order, 2..5 terms, targets at the
    # low end, middle and high end of the reachable range: the partial-sum auxiliaries' bounds depend on the order and signs of the tail
    signed = [(-1, 1), (0, 2), (-2, 0), (-1, 0), (1, 2)]
    for kind in ("eq", "le", "ge"):
        for k in range(2, 6):
            for r in range(5):
                idx = [(r + j) % 5 for j in range(k)]
                lo = sum(signed[i][0] for i in idx)
                hi = sum(signed[i][1] for i in idx)
                for t in sorted({lo + 1, (lo + hi) // 2, hi - 1}):
                    progs.append({"vars": signed, "cons": [("sum", kind, idx, t)]})
    return progs


def chunks(lst, k):
    return [lst[i:i + k] for i in range(0, len(lst), k)]


def prog_from_json(p):
    cons = []
    for c in p["cons"]:
        c = list(c)
        cons.append(tuple(c))
    out = {"vars": [tuple(v) for v in p["vars"]], "cons": cons}
    if p.get("unnamed"):
        out["unnamed"] = list(p["unnamed"])
    return out

"""C10 - solve_hungarian returns a matching of optimal total cost.

Shape and direction are structural; EVERY matrix entry is an unbounded SMT variable (Int pass, Real pass).
The optimality obligation is the explicit conjunction over all matchings of the shape.
"""

import importlib
import itertools

from symx.core import AND, OR, NOT, IMPLIES, ITE, IFF, SNum, ssum, Explorer

PROPERTY = "C10"
FILES = ["solvor/hungarian.py", "solvor/types.py"]
FUNCTIONS = ["solvor.hungarian.solve_hungarian"]
BOUNDS = {
    "quick": "all shapes r x c with 1<=r,c<=3, minimize and maximize, entries unbounded Ints and (second pass) unbounded Reals "
             "(any sign, fractional; Real pass skipped for 3-wide maximise); optimality against every matching of the shape; plus 1x4, 4x1",
    "thorough": "quick + Real pass for all <=3x3, 2x4, 4x2, 3x4, 4x3, 4x4 both directions (4x4 maximise up to the stated path cap), entries unbounded Ints",
}
OUTSIDE = "shapes beyond 4x4; float rounding (floats modelled as exact reals); ragged / empty matrices other than the [] and [[]] base cases"
ASSUMPTIONS = ["Python float arithmetic modelled as exact real arithmetic; float('inf') sentinels handled exactly",
               "matrix is rectangular (documented input shape)"]
STUBS = []
GOALS = {"quick": ["rect.rows>cols", "rect.cols>rows", "max"], "thorough": ["rect.rows>cols", "rect.cols>rows", "max"]}


def matchings(r, c):
    k = min(r, c)
    if r <= c:
        for cols in itertools.permutations(range(c), r):
            yield [(i, cols[i]) for i in range(r)]
    else:
        for rows in itertools.permutations(range(r), c):
            yield [(rows[j], j) for j in range(c)]


def h_hungarian(s, r, c, minimize, kind):
    mod = importlib.import_module("solvor.hungarian")
    mk = s.int if kind == "int" else s.real
    M = [[mk("m%d_%d" % (i, j)) for j in range(c)] for i in range(r)]
    snapshot = [list(row) for row in M]
    res = mod.solve_hungarian(M, minimize=minimize)
    a = res.solution
    s.check(all(x is y for ra, rb in zip(M, snapshot) for x, y in zip(ra, rb)) and len(M) == r, "input_not_mutated")
    ok_shape = isinstance(a, list) and len(a) == r and all(type(x) is int for x in a)
    s.check(ok_shape, "assignment.shape", detail=repr(a))
    if not ok_shape:
        return
    used = [x for x in a if x != -1]
    s.check(all(0 <= x < c for x in used) and len(set(used)) == len(used), "assignment.injective", detail=a)
    s.check(len(used) == min(r, c), "assignment.size", detail=a)
    tot = ssum(M[i][a[i]] for i in range(r) if a[i] != -1 and 0 <= a[i] < c)
    s.check(res.objective == tot, "objective.is_sum_of_chosen")
    conds = []
    for m in matchings(r, c):
        v = ssum(M[i][j] for i, j in m)
        conds.append(res.objective <= v if minimize else res.objective >= v)
    s.check(AND(conds), "objective.optimal_over_all_matchings")
    if r > c:
        s.goal("rect.rows>cols")
    if c > r:
        s.goal("rect.cols>rows")
    if not minimize:
        s.goal("max")
    s.observe("assignment", list(a))
    s.observe("objective", res.objective)


def h_base(s):
    mod = importlib.import_module("solvor.hungarian")
    r1 = mod.solve_hungarian([])
    r2 = mod.solve_hungarian([[]])
    s.check(r1.solution == [] and r1.objective == 0 and r2.solution == [] and r2.objective == 0, "empty")
    s.observe("e", [r1.objective, r2.objective])


def _split(harness, params, depth):
    return Explorer(globals()[harness], params).frontier(depth)


def items(tier, rng):
    shapes = [(r, c) for r in range(1, 4) for c in range(1, 4)] + [(1, 4), (4, 1)]
    if tier == "thorough":
        shapes += [(2, 4), (4, 2)]
    out = [{"name": "base", "harness": "h_base", "params": {}}]
    for (r, c) in shapes:
        for minimize in (True, False):
            for kind in ("int", "real"):
                if kind == "real" and (max(r, c) >= 4 or (tier == "quick" and max(r, c) == 3 and not minimize)):
                    continue
                p = {"r": r, "c": c, "minimize": minimize, "kind": kind}
                name = "%dx%d_%s_%s" % (r, c, "min" if minimize else "max", kind)
                if max(r, c) >= 3 and not minimize or max(r, c) >= 4:
                    for pf in _split("h_hungarian", p, 5):
                        out.append({"name": name, "harness": "h_hungarian", "params": p, "prefix": pf})
                else:
                    out.append({"name": name, "harness": "h_hungarian", "params": p})
    if tier == "thorough":
        for (r, c) in [(3, 4), (4, 3), (4, 4)]:
            for minimize in (True, False):
                p = {"r": r, "c": c, "minimize": minimize, "kind": "int"}
                name = "%dx%d_%s_int" % (r, c, "min" if minimize else "max")
                for pf in _split("h_hungarian", p, 8):
                    it = {"name": name, "harness": "h_hungarian", "params": p, "prefix": pf, "validate": True}
                    if not minimize:
                        it["max_paths"] = 1500
                    out.append(it)
    return out

"""C13 - kruskal / prim return minimum spanning trees (or forests / INFEASIBLE).

Edge list (endpoints, duplicates, self loops) is structural; every weight is an unbounded SMT Real of any sign.
Minimality is the explicit conjunction over all spanning trees (forests) of the multigraph.
"""

import importlib
import itertools

from symx.core import AND, OR, NOT, IMPLIES, ITE, IFF, SNum, ssum
from symx.stubs import namer

PROPERTY = "C13"
FILES = ["solvor/mst.py", "solvor/utils/data_structures.py", "solvor/utils/validate.py"]
FUNCTIONS = ["solvor.mst.kruskal[python]", "solvor.mst.prim", "solvor.utils.data_structures.UnionFind (as used by kruskal)"]
BOUNDS = {
    "quick": "every simple graph on 4 nodes (64 edge subsets of K4) and on 3 nodes, plus 10 named multigraphs on 3-5 nodes with duplicate "
             "edges, self loops, isolated nodes; prim labels rotate over ints / strings / unorderable hashable objects; allow_forest on/off (<=4 edges; off beyond), every prim start node for <=3 edges, 1-2 start nodes beyond; weights unbounded "
             "Reals of any sign (ties included)",
    "thorough": "quick + every multigraph on 5 nodes drawn from VERIF_SEED-sampled edge lists with <=7 edges (300 lists) + K5 minus 3 edges",
}
OUTSIDE = "graphs beyond the enumerated/named/sampled sets; float rounding; asymmetric adjacency for prim (the property is about undirected graphs)"
ASSUMPTIONS = ["prim receives the symmetric adjacency of the same undirected multigraph (each edge listed from both endpoints with the same weight)",
               "floats modelled as exact reals"]
STUBS = []
GOALS = {"quick": ["kruskal.tree", "kruskal.forest", "kruskal.infeasible", "prim.tree", "prim.infeasible"],
         "thorough": ["kruskal.tree", "kruskal.forest", "prim.tree"]}


def components(n, edges):
    comp = list(range(n))

    def f(x):
        while comp[x] != x:
            x = comp[x]
        return x

    for (u, v) in edges:
        ru, rv = f(u), f(v)
        if ru != rv:
            comp[ru] = rv
    return len({f(x) for x in range(n)})


def is_forest(n, edges):
    comp = list(range(n))

    def f(x):
        while comp[x] != x:
            x = comp[x]
        return x

    for (u, v) in edges:
        ru, rv = f(u), f(v)
        if ru == rv:
            return False
        comp[ru] = rv
    return True


def spanning_forests(n, edges):
    """All maximal spanning forests (as index tuples): subsets of size n - #components that are acyclic."""
    c = components(n, edges)
    k = n - c
    out = []
    for sub in itertools.combinations(range(len(edges)), k):
        if is_forest(n, [edges[i] for i in sub]):
            out.append(sub)
    return out, c


def match_edges(ret, edges, w):
    """Map each returned (u,v,w) triple to a distinct input edge index (same endpoints up to orientation, same weight object)."""
    used = set()
    idx = []
    for t in ret:
        if not (isinstance(t, tuple) and len(t) == 3):
            return None
        a, b, ww = t
        hit = None
        for i, (u, v) in enumerate(edges):
            if i in used:
                continue
            if {a, b} == {u, v} and (ww is w[i] or (not isinstance(ww, SNum) and not isinstance(w[i], SNum) and ww == w[i])):
                hit = i
                break
        if hit is None:
            return None
        used.add(hit)
        idx.append(hit)
    return idx


def h_mst(s, algo, n, edges, allow_forest=False, start=None, labels=False, chain=False):
    Status = importlib.import_module("solvor.types").Status
    mod = importlib.import_module("solvor.mst")
    w = [s.real("w%d" % i) for i in range(len(edges))]
    if chain:
        # rank family: the weights are arbitrary but listed in non-decreasing order, so kruskal's sort has one outcome per tie pattern
        # and the union-find sees exactly the merge sequence the topology was built for (every weight vector in that order is covered)
        for i in range(len(edges) - 1):
            s.assume(w[i] <= w[i + 1])
    forests, ncomp = spanning_forests(n, edges)
    connected = ncomp == 1
    name = namer(labels)
    if algo == "kruskal":
        inp = [(u, v, w[i]) for i, (u, v) in enumerate(edges)]
        snap = list(inp)
        res = mod.kruskal(n, inp, allow_forest=allow_forest, backend="python")
        s.check(len(inp) == len(snap) and all(a is b for a, b in zip(inp, snap)), "input_not_mutated")
        ret_edges = res.solution
    else:
        graph = {name(u): [] for u in range(n)}
        for i, (u, v) in enumerate(edges):
            graph[name(u)].append((name(v), w[i]))
            if u != v:
                graph[name(v)].append((name(u), w[i]))
        kw = {} if start is None else {"start": name(start)}
        res = mod.prim(graph, **kw)
        inv = {name(u): u for u in range(n)}
        ret_edges = None if res.solution is None else [(inv.get(a, a), inv.get(b, b), ww) for (a, b, ww) in res.solution]
    s.observe("status", int(res.status))
    if not connected:
        if algo == "kruskal" and allow_forest:
            s.check(res.status == Status.FEASIBLE and ret_edges is not None, "kruskal.forest.status", detail=str(res.status))
            s.goal("kruskal.forest")
        else:
            s.check(res.status == Status.INFEASIBLE and res.solution is None, algo + ".disconnected_is_infeasible", detail=str(res.status))
            s.goal(algo + ".infeasible")
            return
    else:
        s.check(res.status == Status.OPTIMAL and ret_edges is not None, algo + ".connected_is_optimal", detail=str(res.status))
        s.goal(algo + ".tree")
    if ret_edges is None:
        return
    idx = match_edges(ret_edges, edges, w)
    s.check(idx is not None, algo + ".edges_are_input_edges", detail=repr([(a, b) for (a, b, _w) in ret_edges]))
    if idx is None:
        return
    chosen = [edges[i] for i in idx]
    s.check(len(idx) == n - ncomp and is_forest(n, chosen), algo + ".spanning_and_acyclic", detail=chosen)
    s.check(res.objective == ssum(w[i] for i in idx), algo + ".objective_is_total_weight")
    s.check(AND([res.objective <= ssum(w[i] for i in f) for f in forests]), algo + ".objective_is_minimum")
    s.observe("objective", res.objective)


def h_prim_empty(s):
    mod = importlib.import_module("solvor.mst")
    r = mod.prim({})
    s.check(r.solution == [] and r.objective == 0, "prim.empty")
    r1 = mod.kruskal(1, [], backend="python")
    s.check(r1.solution == [] and r1.objective == 0 and r1.ok, "kruskal.single_node")
    s.observe("e", 0)


K4E = [(0, 1), (0, 2), (0, 3), (1, 2), (1, 3), (2, 3)]
K3E = [(0, 1), (0, 2), (1, 2)]
NAMED = {
    "dup_triangle": (3, [(0, 1), (1, 0), (1, 2), (0, 2), (1, 2)]),
    "selfloops": (3, [(0, 0), (0, 1), (1, 1), (1, 2), (2, 2)]),
    "dup_path4": (4, [(0, 1), (0, 1), (1, 2), (2, 3), (3, 2)]),
    "two_comps_dup": (4, [(0, 1), (1, 0), (2, 3), (3, 2)]),
    "isolated": (4, [(0, 1), (1, 2), (0, 2)]),
    "bowtie5": (5, [(0, 1), (1, 2), (0, 2), (2, 3), (3, 4), (2, 4)]),
    "wheel5": (5, [(0, 1), (0, 2), (0, 3), (0, 4), (1, 2), (2, 3), (3, 4)]),
    "path5": (5, [(3, 4), (2, 3), (1, 2), (0, 1)]),
    "reverse_endpoints": (4, [(3, 0), (2, 1), (3, 2), (1, 0), (2, 0)]),
    "single": (1, []),
}


def rank_family():
    """7-node graphs whose edge list, taken in order, makes union-find merge a rank-1 pair {0,1} into a rank-2 block {2,3,4,5} through
    either endpoint of the pair in either orientation, then offers an edge from the pair's other node (a cycle) and finally reaches
    node 6: union by rank with unequal ranks, a non-root argument and path compression all matter (anchor: UnionFind.find/union)."""
    out = []
    for x in (0, 1):
        for y in (2, 3, 4, 5):
            for flip in (False, True):
                for cyc in (2, 3, 4, 5):
                    for last in range(6):
                        for pair_first in (False, True):
                            pair = [(0, 1)] if pair_first else []
                            block = [(2, 3), (4, 5), (3, 5)]
                            merge = (y, x) if flip else (x, y)
                            other = 1 - x
                            edges = (pair + block if pair_first else block + [(1, 0)]) + [merge, (other, cyc), (last, 6), (6, other)]
                            out.append((7, edges))
    return out


def items(tier, rng):
    out = [{"name": "empty", "harness": "h_prim_empty", "params": {}}]
    fam = rank_family()
    for (n, edges) in (fam if tier == "thorough" else rng.sample(fam, 48)):
        for af in (False, True):
            out.append({"name": "kruskal_rank_%d_%d" % (n, len(edges)), "harness": "h_mst",
                        "params": {"algo": "kruskal", "n": n, "edges": edges, "allow_forest": af, "chain": True}})
    graphs = []
    for k in range(0, 7):
        for sub in itertools.combinations(K4E, k):
            graphs.append((4, list(sub)))
    for k in range(0, 4):
        for sub in itertools.combinations(K3E, k):
            graphs.append((3, list(sub)))
    graphs += [g for nm, g in NAMED.items() if tier == "thorough" or nm != "wheel5"]
    if tier == "thorough":
        K5E = [(u, v) for u in range(5) for v in range(u, 5)]
        for _ in range(300):
            m = rng.randint(4, 7)
            graphs.append((5, [rng.choice(K5E) for _ in range(m)]))
        graphs.append((5, [(0, 1), (0, 2), (0, 3), (0, 4), (1, 2), (1, 3), (2, 4)]))
    nprim = 0
    for (n, edges) in graphs:
        big = len(edges) >= 6
        for af in ((False, True) if (len(edges) <= 4 or tier == "thorough") else (False,)):
            it = {"name": "kruskal_%d_%d" % (n, len(edges)), "harness": "h_mst",
                  "params": {"algo": "kruskal", "n": n, "edges": edges, "allow_forest": af}}
            if big:
                it["split"] = 6
            out.append(it)
        if tier == "thorough":
            starts = [None] + list(range(n)) if len(edges) <= 5 else [None, n - 1]
        else:
            starts = [None] + list(range(n)) if len(edges) <= 3 else ([None, n - 1] if len(edges) == 4 else [rng.choice([None, 1, 2])])
        for st in starts:
            # label scheme rotates over ints / strings / unorderable hashable objects ("any hashable node labels")
            nprim += 1
            it = {"name": "prim_%d_%d" % (n, len(edges)), "harness": "h_mst",
                  "params": {"algo": "prim", "n": n, "edges": edges, "start": st, "labels": (False, "str", "opaque")[nprim % 3]}}
            if big:
                it["split"] = 6
            out.append(it)
    return out


def params_from_json(p):
    p = dict(p)
    if "edges" in p:
        p["edges"] = [tuple(e) for e in p["edges"]]
    return p

"""C14 - SCC, topological order and condensation match their definitions.

Purely structural: every potential arc is a symbolic Bool that the real code reads through the neighbour callback, so the
explorer visits every digraph of the bound (solver-enumerated); the per-path oracle is the transitive closure.
"""

import importlib
import itertools

from symx.core import AND, OR, NOT, IMPLIES, ITE, IFF, SNum, SBool
from symx.stubs import namer

PROPERTY = "C14"
FILES = ["solvor/scc.py", "solvor/types.py"]
FUNCTIONS = ["solvor.scc.strongly_connected_components", "solvor.scc.topological_sort", "solvor.scc.condense",
             "solvor.scc.strongly_connected_components_edges[python]", "solvor.scc.topological_sort_edges[python]"]
BOUNDS = {
    "quick": "all digraphs on 3 nodes incl. self loops (512) under all 6 node orders x 2 neighbour orders; all loop-free digraphs on 4 nodes "
             "(4096) under 2 node orders; duplicate-neighbour and outside-neighbour variants on 3 nodes; string labels; _edges variants on 3 nodes",
    "thorough": "all digraphs on 4 nodes incl. self loops (65536), 4 node orders; 5 nodes with 8 VERIF_SEED-sampled potential arcs x 20 skeletons",
}
OUTSIDE = "more than 4 (5 sampled) nodes; recursion depth limits on long chains"
ASSUMPTIONS = ["this check is an exhaustive solver-driven enumeration of a discrete structure; there is no numeric symbolic dimension",
               "neighbours outside the node set are not part of the graph (as topological_sort and the property statement treat them)"]
STUBS = []
GOALS = {"quick": ["scc.nontrivial", "topo.cyclic", "topo.order", "condense.edges", "outside"],
         "thorough": ["scc.nontrivial", "topo.cyclic", "topo.order", "condense.edges"]}


def closure(n, arcs):
    r = [[False] * n for _ in range(n)]
    for (u, v) in arcs:
        r[u][v] = True
    for k in range(n):
        for i in range(n):
            for j in range(n):
                if r[i][k] and r[k][j]:
                    r[i][j] = True
    return r


def h_scc(s, func, n, pot, order, rev=False, labels=False, dup=False, outside=0, edges_variant=False):
    """pot: potential arcs (u,v) over range(n + outside); nodes >= n are outside the node set."""
    Status = importlib.import_module("solvor.types").Status
    mod = importlib.import_module("solvor.scc")
    N = n + outside
    p = {a: s.bool("p%d_%d" % a) for a in pot}
    name = namer(labels, "v")
    inv = {name(u): u for u in range(N)}

    def neighbors(x):
        u = inv[x]
        lst = [v for v in range(N) if (u, v) in p]
        if rev:
            lst.reverse()
        for v in lst:
            if bool(p[(u, v)]):
                yield name(v)
                if dup:
                    yield name(v)

    nodes = [name(u) for u in order]
    if edges_variant:
        arcs_now = [a for a in pot if bool(p[a])]
        if func == "scc":
            res = mod.strongly_connected_components_edges(n, list(arcs_now), backend="python")
        else:
            res = mod.topological_sort_edges(n, list(arcs_now), backend="python")
    elif func == "scc":
        res = mod.strongly_connected_components(iter(nodes), neighbors)
    elif func == "topo":
        res = mod.topological_sort(iter(nodes), neighbors)
    else:
        res = mod.condense(iter(nodes), neighbors)
    arcs = [a for a in pot if bool(p[a])]
    inner = [(u, v) for (u, v) in arcs if u < n and v < n]
    R = closure(n, inner)
    s.observe("arcs", arcs)
    if outside and any(v >= n for (u, v) in arcs):
        s.goal("outside")

    def same(i, j):
        return i == j or (R[i][j] and R[j][i])

    if func == "scc":
        comps = res.solution
        ok = isinstance(comps, list) and all(isinstance(c, list) and all(x in inv for x in c) for c in comps)
        s.check(ok, "scc.wellformed", detail=repr(comps))
        if not ok:
            return
        cs = [[inv[x] for x in c] for c in comps]
        flat = [x for c in cs for x in c]
        s.check(sorted(flat) == list(range(n)), "scc.partitions_the_node_set", detail=cs)
        if sorted(flat) != list(range(n)):
            return
        comp_of = {x: i for i, c in enumerate(cs) for x in c}
        s.check(all((comp_of[i] == comp_of[j]) == same(i, j) for i in range(n) for j in range(n)), "scc.classes_of_mutual_reachability", detail=cs)
        s.check(all(comp_of[v] <= comp_of[u] for (u, v) in inner), "scc.sinks_first", detail=cs)
        s.check(res.objective == len(comps), "scc.objective_is_count")
        if any(len(c) > 1 for c in cs):
            s.goal("scc.nontrivial")
        s.observe("comps", [sorted(c) for c in cs])
    elif func == "topo":
        cyclic = any(R[i][i] for i in range(n))
        if cyclic:
            s.check(res.status == Status.INFEASIBLE and res.solution is None, "topo.cyclic_is_infeasible", detail=str(res.status))
            s.goal("topo.cyclic")
            return
        s.check(res.status == Status.OPTIMAL and res.solution is not None, "topo.acyclic_gets_an_order", detail=str(res.status))
        if res.solution is None:
            return
        od = [inv.get(x, -1) for x in res.solution]
        s.check(sorted(od) == list(range(n)), "topo.order_lists_every_node_once", detail=od)
        if sorted(od) != list(range(n)):
            return
        pos = {x: i for i, x in enumerate(od)}
        s.check(all(pos[u] < pos[v] for (u, v) in inner), "topo.every_edge_points_forward", detail=od)
        s.goal("topo.order")
        s.observe("order", od)
    else:
        cn, adj = res.solution
        ok = isinstance(cn, list) and all(isinstance(c, frozenset) for c in cn) and isinstance(adj, dict)
        s.check(ok, "condense.wellformed")
        if not ok:
            return
        cs = [sorted(inv[x] for x in c) for c in cn]
        flat = sorted(x for c in cs for x in c)
        s.check(flat == list(range(n)), "condense.nodes_partition_the_node_set", detail=cs)
        if flat != list(range(n)):
            return
        comp_of = {x: i for i, c in enumerate(cs) for x in c}
        s.check(all((comp_of[i] == comp_of[j]) == same(i, j) for i in range(n) for j in range(n)), "condense.nodes_are_sccs", detail=cs)
        s.check(set(adj.keys()) == set(cn), "condense.adjacency_has_every_component")
        want = {(comp_of[u], comp_of[v]) for (u, v) in inner if comp_of[u] != comp_of[v]}
        got = set()
        dupes = False
        for a, succ in adj.items():
            seen = set()
            for b in succ:
                if b in seen:
                    dupes = True
                seen.add(b)
                if a in cn and b in cn:
                    got.add((cn.index(a), cn.index(b)))
                else:
                    got.add(("?", "?"))
        s.check(got == want and not dupes, "condense.edge_iff_some_original_edge", detail={"got": sorted(map(str, got)), "want": sorted(map(str, want))})
        # acyclic
        cr = closure(len(cn), [e for e in got if e[0] != "?"]) if cn else []
        s.check(not any(cr[i][i] for i in range(len(cn))), "condense.acyclic")
        if want:
            s.goal("condense.edges")
        s.observe("cn", cs)


def items(tier, rng):
    out = []
    q = tier == "quick"
    pot3 = [(u, v) for u in range(3) for v in range(3)]
    pot4 = [(u, v) for u in range(4) for v in range(4) if u != v]
    pot4l = [(u, v) for u in range(4) for v in range(4)]
    for func in ("scc", "topo", "condense"):
        for order in itertools.permutations(range(3)):
            for rev in (False, True):
                out.append({"name": "%s_3" % func, "harness": "h_scc",
                            "params": {"func": func, "n": 3, "pot": pot3, "order": list(order), "rev": rev,
                                       "labels": ("str" if rev else "opaque") if order[0] == 2 else False}})
        orders4 = [[0, 1, 2, 3], [2, 0, 3, 1]] + ([] if q else [[3, 2, 1, 0], [1, 3, 0, 2]])
        for order in orders4:
            out.append({"name": "%s_4" % func, "harness": "h_scc", "split": 8,
                        "params": {"func": func, "n": 4, "pot": pot4 if q else pot4l, "order": order, "rev": order[0] == 2}})
        # duplicates
        out.append({"name": "%s_3dup" % func, "harness": "h_scc", "params": {"func": func, "n": 3, "pot": pot3, "order": [1, 0, 2], "dup": True}})
        # neighbours outside the node set: node 3 is not in the node list but reachable and has arcs back
        pot_out = [(u, v) for u in range(3) for v in range(3) if u != v] + [(0, 3), (2, 3), (3, 1), (3, 3)]
        for rev in (False, True):  # the outside neighbour listed after / before the real ones
            out.append({"name": "%s_3out" % func, "harness": "h_scc", "split": 6,
                        "params": {"func": func, "n": 3, "pot": pot_out, "order": [0, 1, 2] if not rev else [1, 0, 2], "outside": 1, "rev": rev}})
    for func in ("scc", "topo"):
        out.append({"name": "%s_edges3" % func, "harness": "h_scc",
                    "params": {"func": func, "n": 3, "pot": pot3, "order": [0, 1, 2], "edges_variant": True}})
    if not q:
        for i in range(20):
            cand = [(u, v) for u in range(5) for v in range(5)]
            pot = rng.sample(cand, 8)
            for func in ("scc", "topo", "condense"):
                out.append({"name": "%s_5s" % func, "harness": "h_scc",
                            "params": {"func": func, "n": 5, "pot": pot, "order": rng.sample(range(5), 5), "rev": bool(i % 2)}})
    return out


def params_from_json(p):
    p = dict(p)
    p["pot"] = [tuple(a) for a in p["pot"]]
    return p

"""C16 - knapsack / bin packing: feasible, faithfully scored, honestly labelled.

Knapsack: weights/capacity index the DP table (structural, enumerated); ALL values are unbounded non-negative SMT Reals.
Bin packing: item count and algorithm structural; ALL sizes and the capacity are SMT Reals (0 <= size <= capacity, capacity > 0).
"""

import importlib
import itertools
import math

from symx.core import AND, OR, NOT, IMPLIES, ITE, IFF, SNum, ssum, sym_int, Unmodelled

PROPERTY = "C16"
FILES = ["solvor/knapsack.py", "solvor/bin_pack.py", "solvor/utils/validate.py"]
FUNCTIONS = ["solvor.knapsack.solve_knapsack", "solvor.knapsack._to_int_capacity", "solvor.knapsack._greedy_fallback",
             "solvor.bin_pack.solve_bin_pack"]
BOUNDS = {
    "quick": "knapsack: every instance with n<=3 items, integer weights in 0..3, capacity in 0..5, minimize on/off, plus VERIF_SEED-sampled "
             "n=4 instances (weights 0..4, capacity 0..6) and a finite grid of decimal weights (multiples of 0.05..0.7, capacity <= 0.9) plus 4 (thorough: 47) adversarial decimal instances (k copies of capacity/k+delta, where integer scaling truncates); values "
             "unbounded non-negative Reals; _to_int_capacity on 0..3 (thorough 0..5) integer weights and an integer capacity that are unbounded SMT Ints. bin packing: n<=4 items, the four heuristics and their aliases, sizes and capacity unbounded Reals",
    "thorough": "knapsack n<=4 exhaustively (weights 0..3, capacity 0..6), n=5 sampled, larger decimal grid; bin packing n<=5",
}
OUTSIDE = "decimal weights outside the finite grid (the float->int scaling is executed concretely on the grid points only); float rounding of loads"
ASSUMPTIONS = ["values non-negative (documented)", "floats modelled as exact reals; weights/capacities are concrete per work item",
               "bin packing optimum: explicit disjunction over all set partitions of the items (Bell(5)=52)"]
STUBS = []
GOALS = {"quick": ["knap.scale_unit", "knap.optimal", "knap.zero_capacity", "knap.minimize", "bin.multi", "bin.decreasing", "knap.decimal"],
         "thorough": ["knap.optimal", "knap.zero_capacity", "bin.multi"]}


def h_knap(s, weights, capacity, minimize):
    Status = importlib.import_module("solvor.types").Status
    mod = importlib.import_module("solvor.knapsack")
    n = len(weights)
    vals = [s.real("v%d" % i, 0, None) for i in range(n)]
    vin, win = list(vals), list(weights)
    res = mod.solve_knapsack(vin, win, capacity, minimize=minimize)
    s.check(all(a is b for a, b in zip(vin, vals)) and win == list(weights), "knap.input_not_mutated")
    sel = res.solution
    ok = isinstance(sel, tuple) and all(type(i) is int and 0 <= i < n for i in sel) and len(set(sel)) == len(sel)
    s.check(ok, "knap.indices_distinct_in_range", detail=repr(sel))
    if not ok:
        return
    tw = sum(weights[i] for i in sel)
    s.check(tw <= capacity + 1e-9, "knap.within_capacity", detail={"sel": sel, "weight": tw})
    s.check(res.objective == ssum(vals[i] for i in sel), "knap.objective_is_sum_of_values")
    s.observe("status", int(res.status))
    s.observe("sel", list(sel))
    if res.status == Status.OPTIMAL:
        conds = []
        for r in range(n + 1):
            for sub in itertools.combinations(range(n), r):
                if sum(weights[i] for i in sub) <= capacity + 1e-12:
                    v = ssum(vals[i] for i in sub)
                    conds.append(res.objective <= v if minimize else res.objective >= v)
        s.check(AND(conds), "knap.optimal_label_is_true")
        s.goal("knap.optimal")
    else:
        s.check(res.status == Status.FEASIBLE, "knap.status_is_optimal_or_feasible", detail=str(res.status))
    if capacity == 0:
        s.goal("knap.zero_capacity")
    if minimize:
        s.goal("knap.minimize")
    if any(w != int(w) for w in weights):
        s.goal("knap.decimal")


def h_scale(s, n):
    """Unit obligation on the float->int scaling: for integer weights and an integer capacity of ANY magnitude (unbounded SMT Ints) the
    DP must run on an exact image of the data - scale a positive whole number (1 today) and int_capacity == capacity * scale - which is what
    makes "exact for integer weights and capacity" carry over from the small tables of h_knap to large capacities (solve_knapsack uses
    nothing else from _to_int_capacity; a scale below 1 or a fractional one truncates integer weights)."""
    mod = importlib.import_module("solvor.knapsack")
    if not hasattr(mod, "_to_int_capacity"):
        raise Unmodelled("solvor.knapsack._to_int_capacity no longer exists: the scaling obligation has to be re-anchored")
    s.stub(mod, int=sym_int)
    ws = [s.int("w%d" % i, 0, None) for i in range(n)]
    cap = s.int("capacity", 0, None)
    ic, scale = mod._to_int_capacity(cap, ws)
    s.observe("scale", scale)
    whole = scale == math.floor(scale) if not isinstance(scale, SNum) else scale == scale.__floor__()
    s.check(AND(scale >= 1, whole, ic == cap * scale), "knap.integer_data_is_scaled_exactly", detail={"int_capacity": ic, "scale": scale})
    s.goal("knap.scale_unit")


def set_partitions(items):
    if not items:
        yield []
        return
    first, rest = items[0], items[1:]
    for p in set_partitions(rest):
        yield [[first]] + p
        for i in range(len(p)):
            yield p[:i] + [[first] + p[i]] + p[i + 1:]


ALGOS = ["first-fit", "best-fit", "first-fit-decreasing", "best-fit-decreasing", "ff", "bf_decreasing", "FF-Decreasing", "best_fit"]


def h_bin(s, n, algorithm):
    Status = importlib.import_module("solvor.types").Status
    mod = importlib.import_module("solvor.bin_pack")
    cap = s.real("cap", 0, None, lo_strict=True)
    sizes = [s.real("size%d" % i, 0, None) for i in range(n)]
    for z in sizes:
        s.assume(z <= cap)
    inp = list(sizes)
    res = mod.solve_bin_pack(inp, cap, algorithm=algorithm)
    s.check(all(a is b for a, b in zip(inp, sizes)) and len(inp) == n, "bin.input_not_mutated")
    a = res.solution
    ok = isinstance(a, tuple) and len(a) == n and all(type(b) is int and b >= 0 for b in a)
    s.check(ok, "bin.every_item_in_one_bin", detail=repr(a))
    if not ok:
        return
    k = max(a) + 1
    s.check(set(a) == set(range(k)), "bin.bins_numbered_0_to_k-1", detail=a)
    s.check(res.objective == k, "bin.objective_is_number_of_bins", detail={"objective": res.objective, "k": k})
    loads = [ssum(sizes[i] for i in range(n) if a[i] == b) for b in range(k)]
    s.check(AND([l <= cap for l in loads]), "bin.no_bin_overfull")
    s.check(k * cap >= ssum(sizes), "bin.at_least_total_over_capacity")
    parts = list(set_partitions(list(range(n))))

    def feas(j):
        return OR([AND([ssum(sizes[i] for i in blk) <= cap for blk in p]) for p in parts if len(p) <= j])

    dec = "decreasing" in algorithm.lower()
    if dec:
        s.check(AND([IMPLIES(feas(j), 9 * k <= 11 * j + 6) for j in range(1, n + 1)]), "bin.decreasing_within_11_9_opt_plus_6_9")
        s.goal("bin.decreasing")
    if res.status == Status.OPTIMAL:
        s.check(NOT(feas(k - 1)) if k > 1 else True, "bin.optimal_label_is_true")
    else:
        s.check(res.status == Status.FEASIBLE, "bin.status_is_optimal_or_feasible", detail=str(res.status))
    if k > 1:
        s.goal("bin.multi")
    s.observe("assign", list(a))
    s.observe("status", int(res.status))


def h_bin_validation(s):
    mod = importlib.import_module("solvor.bin_pack")
    r = mod.solve_bin_pack([], 1.0)
    s.check(r.solution == () and r.objective == 0, "bin.empty")
    s.observe("e", 0)


def items(tier, rng):
    out = [{"name": "bin_empty", "harness": "h_bin_validation", "params": {}}]
    q = tier == "quick"
    for n in range(0, 4 if q else 6):
        out.append({"name": "knap_scale_%d" % n, "harness": "h_scale", "params": {"n": n}})
    nmax = 3 if q else 4
    capmax = 5 if q else 6
    for n in range(1, nmax + 1):
        for ws in itertools.product(range(0, 4), repeat=n):
            for cap in range(0, capmax + 1):
                for mn in (False, True):
                    if mn and (n == nmax) and sum(ws) % 2:  # minimise always selects nothing; thin it out
                        continue
                    out.append({"name": "knap_%d" % n, "harness": "h_knap",
                                "params": {"weights": list(ws), "capacity": cap, "minimize": mn}})
    for _ in range(60 if q else 400):
        n = 4 if q else 5
        ws = [rng.randint(0, 4) for _ in range(n)]
        out.append({"name": "knap_s%d" % n, "harness": "h_knap",
                    "params": {"weights": ws, "capacity": rng.randint(0, 6 + (0 if q else 2)), "minimize": rng.random() < 0.2}})
    grid = [0.05, 0.1, 0.25, 0.3, 0.5, 0.7, 0.0]
    for _ in range(16 if q else 150):
        n = rng.choice([2, 3])
        ws = [rng.choice(grid) for _ in range(n)]
        cap = rng.choice([0.3, 0.5, 0.75, 0.9, 0.35])
        out.append({"name": "knap_dec", "harness": "h_knap", "params": {"weights": ws, "capacity": cap, "minimize": False},
                    "path_wall_s": 60})
    # adversarial decimals: k copies of capacity/k + delta -> the truncated scaled weights fit, the real ones do not
    adv = [([0.3335] * 3, 1.0), ([0.5004, 0.5004], 1.0), ([0.5009, 0.2509, 0.2509], 1.0), ([0.1001] * 2 + [0.8003], 1.0)]
    # exact fills on a fine dyadic grid (u = 1/256, scale 1000: scaled weights 3.90625, 7.8125, ...): every item is needed and the sum
    # equals the capacity exactly in binary floating point, so a scaled weight that is rounded *up* pushes the optimal subset out of the table
    u = 1.0 / 256
    adv += [([u, u, u], 3 * u), ([u, 2 * u, u], 4 * u), ([3 * u, u, u, u / 2], 5 * u), ([u] * 4, 4 * u), ([2 * u, 2 * u, 3 * u], 7 * u)]
    if not q:
        adv += [([0.2509] * 4, 1.0), ([1666.85] * 3, 5000.5), ([0.3335, 0.3335, 0.3331], 1.0)]
        for _ in range(40):
            k = rng.choice([2, 3, 4])
            d = rng.choice([0.0004, 0.0007, 0.0011, 0.00049])
            adv.append(([round(1.0 / k + d, 5)] * k, 1.0))
    # no items at all, and a zero decimal capacity
    for mn in (False, True):
        out.append({"name": "knap_0", "harness": "h_knap", "params": {"weights": [], "capacity": 3, "minimize": mn}})
    out.append({"name": "knap_cap0dec", "harness": "h_knap", "params": {"weights": [0.5, 0.25], "capacity": 0.0, "minimize": False}})
    out.append({"name": "knap_adv_min", "harness": "h_knap", "params": {"weights": [0.3335] * 3, "capacity": 1.0, "minimize": True}, "path_wall_s": 90})
    for ws, cap in adv:
        for mn in (False,) if q else (False, True):
            out.append({"name": "knap_adv", "harness": "h_knap", "params": {"weights": ws, "capacity": cap, "minimize": mn}, "path_wall_s": 90})
    for n in range(1, (4 if q else 5) + 1):
        for alg in (ALGOS if n <= 3 else ALGOS[:4]):
            it = {"name": "bin_%d_%s" % (n, alg), "harness": "h_bin", "params": {"n": n, "algorithm": alg}}
            if n >= 4:
                it["split"] = 10
            out.append(it)
    return out

"""C02 - solve_sat verdicts are correct, learned clauses are implied, and every call returns."""
import importlib

from symx.core import AND, IMPLIES
from checks import sat_common as C
from checks.sat_common import h_sat, params_from_json  # noqa: F401

PROPERTY = "C02"
FILES = C.FILES
FUNCTIONS = C.FUNCTIONS
STUBS = C.STUBS
ASSUMPTIONS = C.ASSUMPTIONS + ["MAX_ITER is justified iff the path condition forces max_conflicts <= learned+1 or max_restarts <= learned "
                               "(upper bounds on the internal counters derived from the hook's event trace)"]
BOUNDS = {
    "quick": "same formula space as C01 (see C01 evidence) with all four budgets unbounded symbolic Ints; luby(i) for every i in 1..512 "
             "as a separate unit obligation (returns, equals the reference Luby sequence)",
    "thorough": "as C01 thorough; luby(i) for i in 1..4096",
}
OUTSIDE = "formulas outside the enumerated/sampled/named sets; luby beyond the stated index range"
GOALS = {"quick": ["conflict_learned", "oracle_sat", "oracle_unsat", "max_iter", "luby"],
         "thorough": ["conflict_learned", "oracle_sat", "oracle_unsat", "max_iter", "luby"]}
OPTS = {"quick": {"path_wall": 10.0}, "thorough": {"path_wall": 12.0}}


def luby_ref(n):
    seq = [0, 1]
    # 1,1,2,1,1,2,4,...
    out = [None]
    def L(i):
        k = 1
        while (1 << k) - 1 < i:
            k += 1
        if i == (1 << k) - 1:
            return 1 << (k - 1)
        return L(i - (1 << (k - 1)) + 1)
    return [None] + [L(i) for i in range(1, n + 1)]


def h_luby(s, lo, hi):
    mod = importlib.import_module("solvor.sat")
    i = s.int("i", lo, hi)
    r = mod.luby(i)
    ref = luby_ref(hi)
    s.check(AND([IMPLIES(i == j, r == ref[j]) for j in range(lo, hi + 1)]), "luby_equals_reference")
    s.goal("luby")
    s.observe("r", r)


def items(tier, rng):
    out = C.build_items(tier, rng, "C02")
    top = 512 if tier == "quick" else 4096
    step = 32 if tier == "quick" else 128
    for lo in range(1, top + 1, step):
        out.append({"name": "luby", "harness": "h_luby", "params": {"lo": lo, "hi": min(top, lo + step - 1)}, "path_wall_s": 3})
    return out


def _only_empty_clauses(cex):
    """The recorded finding: the formula is a non-empty list of EMPTY clauses and there are no assumptions (n_vars == 0 early return)."""
    ob = cex.get("observed") or {}
    cl = ob.get("clauses")
    return isinstance(cl, list) and len(cl) > 0 and all(len(c) == 0 for c in cl) and not ob.get("assumptions")


KNOWN_CLASSES = {"only_empty_clauses": _only_empty_clauses}

"""C08 - max_flow returns a feasible flow whose value equals the minimum cut.

Topology (ordered adjacency lists) is structural; ALL capacities are unbounded non-negative SMT Ints.
"""

import importlib
import itertools

from symx.core import AND, OR, NOT, IMPLIES, ITE, IFF, SNum, ssum
from symx.stubs import namer

PROPERTY = "C08"
FILES = ["solvor/flow.py", "solvor/types.py"]
FUNCTIONS = ["solvor.flow.max_flow"]
BOUNDS = {
    "quick": "every topology on 4 nodes (source 0, sink 3) with <=4 arcs out of the 12 possible (incl. arcs into the source / "
             "out of the sink, anti-parallel pairs), lexicographic adjacency order, plus a 40 VERIF_SEED-sampled 4-node multigraphs (repeated arcs in random order) and a named family of 18 larger/odd "
             "topologies (6-7 nodes, parallel arcs, self loop, string labels and unorderable hashable labels, reversed adjacency order); every capacity an "
             "unbounded non-negative Int (zero included)",
    "thorough": "every topology on 4 nodes with <=6 arcs, the complete digraph on 4 nodes, named family, and VERIF_SEED-sampled "
                "5-6 node sparse topologies with shuffled adjacency order (structure sampled, capacities for-all)",
}
OUTSIDE = "topologies outside the enumerated/named/sampled sets; non-integer capacities"
ASSUMPTIONS = ["capacities are non-negative integers (documented input)",
               "min-cut oracle: value <= capacity of every s-t cut and == capacity of some s-t cut (all 2^(n-2) cuts enumerated)"]
STUBS = []
GOALS = {"quick": ["reverse_arc_needed_family", "parallel", "antiparallel"],
         "thorough": ["reverse_arc_needed_family", "parallel", "antiparallel"]}

NAMED = {
    # classical instance where the BFS-shortest path s-a-b-t must later be cancelled through b->a
    "cancel6": (6, [(0, 1), (0, 4), (1, 2), (1, 3), (2, 5), (3, 5), (4, 2)], 0, 5),
    "cancel6_rev": (6, [(4, 2), (3, 5), (2, 5), (1, 3), (1, 2), (0, 4), (0, 1)], 0, 5),
    "diamond_cross": (4, [(0, 1), (0, 2), (1, 2), (2, 1), (1, 3), (2, 3)], 0, 3),
    "parallel": (3, [(0, 1), (0, 1), (1, 2), (1, 2), (0, 2)], 0, 2),
    "self_loop": (3, [(0, 0), (0, 1), (1, 1), (1, 2)], 0, 2),
    "into_source_out_of_sink": (4, [(0, 1), (1, 0), (1, 3), (3, 2), (2, 1), (2, 0)], 0, 3),
    "layered7": (7, [(0, 1), (0, 2), (1, 3), (1, 4), (2, 4), (3, 6), (4, 5), (5, 6), (2, 5)], 0, 6),
    "zigzag6": (6, [(0, 1), (0, 2), (1, 3), (2, 3), (2, 4), (3, 5), (4, 5), (1, 4)], 0, 5),
    "cancel_twice": (6, [(0, 1), (1, 2), (2, 5), (0, 3), (3, 2), (1, 4), (4, 5), (3, 4)], 0, 5),
    "unreachable_part": (5, [(0, 1), (1, 4), (2, 3), (3, 2), (3, 4)], 0, 4),
    "no_path": (4, [(1, 0), (3, 2), (1, 2)], 0, 3),
    "src_eq_only_arc": (2, [(0, 1)], 0, 1),
    "grid6": (6, [(0, 1), (0, 2), (1, 2), (1, 3), (2, 4), (3, 4), (4, 3), (3, 5), (4, 5)], 0, 5),
    # anti-parallel pair used in both directions by successive augmenting paths (s-v-u-t, then s-x-u-v-y-t)
    "antipar_both6": (6, [(0, 1), (0, 2), (1, 3), (1, 4), (2, 3), (3, 5), (3, 1), (4, 5)], 0, 5),
    "antipar_both6b": (6, [(0, 2), (0, 1), (1, 3), (3, 1), (1, 4), (2, 3), (3, 5), (4, 5), (4, 1)], 0, 5),
    # parallel arcs separated by another arc in the same adjacency list
    "parallel_split4": (4, [(0, 1), (0, 2), (0, 1), (1, 3), (2, 3)], 0, 3),
    "parallel_split4b": (4, [(0, 1), (0, 2), (1, 3), (1, 2), (1, 3), (2, 3), (0, 1)], 0, 3),
    "sink_first_order": (5, [(0, 3), (0, 1), (1, 2), (3, 2), (2, 4), (1, 4), (3, 1)], 0, 4),
}
STRING_LABELS = {"cancel6", "parallel"}
OPAQUE_LABELS = {"parallel_split4", "sink_first_order", "antipar_both6"}  # hashable labels without an ordering


def h_maxflow(s, n, arcs, source, sink, labels=False, key_order=None):
    mod = importlib.import_module("solvor.flow")
    name = namer(labels)
    caps = [s.int("cap%d" % k, 0, None) for k in range(len(arcs))]
    graph = {}
    if key_order is not None:  # the dict's key order (which node is seen first) is part of the input: insert the keys in this order
        for u in key_order:
            if any(a == u for (a, _b) in arcs):
                graph[name(u)] = []
    for k, (u, v) in enumerate(arcs):
        graph.setdefault(name(u), []).append((name(v), caps[k]))
    snapshot = {u: list(l) for u, l in graph.items()}
    res = mod.max_flow(graph, name(source), name(sink))
    s.check(graph.keys() == snapshot.keys() and all(len(graph[u]) == len(snapshot[u]) and
            all(a[0] == b[0] and a[1] is b[1] for a, b in zip(graph[u], snapshot[u])) for u in graph), "input_not_mutated")
    flows = res.solution
    pooled = {}
    for k, (u, v) in enumerate(arcs):
        pooled[(u, v)] = pooled.get((u, v), 0) + caps[k]
    inv = {name(u): u for u in range(n)}
    f = {}
    bad_key = None
    for (a, b), val in flows.items():
        if a not in inv or b not in inv or (inv[a], inv[b]) not in pooled:
            bad_key = (a, b)
            continue
        f[(inv[a], inv[b])] = val
    s.check(bad_key is None, "flow.only_on_existing_arcs", detail=repr(bad_key))
    s.check(AND([AND(val >= 0, val <= pooled[e]) for e, val in f.items()]), "flow.within_pooled_capacity")
    conds = []
    for x in range(n):
        if x in (source, sink):
            continue
        inn = ssum(val for (u, v), val in f.items() if v == x)
        out = ssum(val for (u, v), val in f.items() if u == x)
        conds.append(inn == out)
    s.check(AND(conds), "flow.conservation")
    net_t = ssum(val for (u, v), val in f.items() if v == sink) - ssum(val for (u, v), val in f.items() if u == sink)
    s.check(net_t == res.objective, "objective.is_net_flow_into_sink")
    inner = [x for x in range(n) if x not in (source, sink)]
    cuts = []
    for r in range(len(inner) + 1):
        for sub in itertools.combinations(inner, r):
            S = set(sub) | {source}
            cuts.append(ssum(c for (u, v), c in pooled.items() if u in S and v not in S))
    s.check(AND([res.objective <= c for c in cuts]), "objective.le_every_cut")
    s.check(OR([res.objective == c for c in cuts]), "objective.equals_min_cut")
    if n >= 6:
        s.goal("reverse_arc_needed_family")
    if len(set(arcs)) < len(arcs):
        s.goal("parallel")
    if any((v, u) in pooled for (u, v) in pooled if u != v):
        s.goal("antiparallel")
    s.observe("objective", res.objective)
    s.observe("flows", {"%s>%s" % e: val for e, val in sorted(f.items())})


def _topologies(n, max_arcs):
    allarcs = [(u, v) for u in range(n) for v in range(n) if u != v]
    for k in range(0, max_arcs + 1):
        for sub in itertools.combinations(allarcs, k):
            yield list(sub)


def items(tier, rng):
    out = []
    max_arcs = 4 if tier == "quick" else 6
    for nm, (n, arcs, so, si) in NAMED.items():
        it = {"name": nm, "harness": "h_maxflow", "params": {"n": n, "arcs": arcs, "source": so, "sink": si,
                                                               "labels": "str" if nm in STRING_LABELS else ("opaque" if nm in OPAQUE_LABELS else False)}}
        if n >= 6:
            it["split"] = 5
        out.append(it)
    # key order of the adjacency dict: interior nodes before the source, reversed, seeded shuffles - on the topologies where an earlier
    # augmenting path has to be cancelled (which arc is read first decides which residual entries exist when)
    CANCEL7 = (7, [(0, 1), (0, 3), (3, 4), (4, 2), (1, 2), (1, 5), (2, 6), (5, 6)], 0, 6)  # s=0,a=1,b=2,c=3,d=4,e=5(f merged),t=6
    for nm, (n, arcs, so, si) in list(NAMED.items()) + [("cancel7", CANCEL7)]:
        if n < 5:
            continue
        orders = [list(reversed(range(n))), [x for x in range(n) if x not in (so, 1)] + [1, so]]
        for _ in range(2 if tier == "quick" else 6):
            o = list(range(n))
            rng.shuffle(o)
            orders.append(o)
        for ko in orders:
            it = {"name": "order_" + nm, "harness": "h_maxflow", "params": {"n": n, "arcs": arcs, "source": so, "sink": si, "key_order": ko}}
            if n >= 6:
                it["split"] = 5
            out.append(it)
    # seeded multigraph topologies: arcs drawn with repetition, random order (parallel arcs need not be adjacent)
    for i in range(40 if tier == "quick" else 400):
        cand = [(u, v) for u in range(4) for v in range(4) if u != v]
        base = rng.sample(cand, rng.randint(2, 4))
        arcs = base + [rng.choice(base) for _ in range(rng.randint(1, 2))]
        rng.shuffle(arcs)
        out.append({"name": "multi4_%d" % i, "harness": "h_maxflow", "params": {"n": 4, "arcs": arcs, "source": 0, "sink": 3,
                                                                                 "labels": (False, "opaque", "str")[i % 3]}})
    for arcs in _topologies(4, max_arcs):
        # arcs that cannot matter: keep all (the code reads them all); skip only graphs without any arc out of the source
        out.append({"name": "t4_%s" % "".join("%d%d" % a for a in arcs), "harness": "h_maxflow",
                    "params": {"n": 4, "arcs": arcs, "source": 0, "sink": 3}})
    if tier == "thorough":
        allarcs = [(u, v) for u in range(4) for v in range(4) if u != v]
        out.append({"name": "complete4", "harness": "h_maxflow", "params": {"n": 4, "arcs": allarcs, "source": 0, "sink": 3},
                    "wall_s": 600})
        for i in range(300):
            n = rng.choice([5, 5, 6])
            m = rng.randint(n, n + 3)
            cand = [(u, v) for u in range(n) for v in range(n) if u != v]
            arcs = [rng.choice(cand) for _ in range(m)]
            rng.shuffle(arcs)
            out.append({"name": "rand%d" % i, "harness": "h_maxflow",
                        "params": {"n": n, "arcs": arcs, "source": 0, "sink": n - 1}, "wall_s": 120})
    return out


def _is_goal_family(cex):
    return True


def params_from_json(p):
    p = dict(p)
    p["arcs"] = [tuple(a) for a in p["arcs"]]
    return p

"""C20 - UnionFind and FenwickTree vs. their reference models.

Histories of any length are covered by ONE inductive step from an ARBITRARY state that
satisfies the representation invariant (RI), plus the base case (constructor establishes RI).
parent pointers / ranks / array contents are SMT variables; the real methods run on them.
"""

from symx.core import AND, OR, NOT, IMPLIES, ITE, IFF, SNum, ssum

PROPERTY = "C20"
FILES = ["solvor/utils/data_structures.py"]
FUNCTIONS = ["solvor.utils.data_structures.UnionFind.{__init__,find,union,connected,component_count,component_sizes,get_components}",
             "solvor.utils.data_structures.FenwickTree.{__init__,update,prefix,range_sum}"]
BOUNDS = {
    "quick": "UnionFind: n in 1..4, one operation from EVERY state satisfying RI (parents in range and forming a forest, "
             "count = #roots; ranks ARBITRARY non-negative ints), operand indices symbolic in range; "
             "FenwickTree: n in 1..8, array contents unbounded Ints and (second pass) unbounded Reals, delta unbounded, "
             "every index; base cases for the same n",
    "thorough": "UnionFind n in 1..5; FenwickTree n in 1..16",
}
OUTSIDE = "n beyond the bound; float summation-order effects (values are exact ints / reals); out-of-range indices"
ASSUMPTIONS = [
    "inductive argument: RI(pre) -> RI(post) and answer = abstract answer for one operation covers all finite histories, "
    "because RI holds after the constructor (base case checked for every n in the bound)",
    "UnionFind RI: parent[i] in range; parent pointers acyclic (ghost height witness); _count == number of roots; "
    "_rank is left arbitrary, so the verdict does not depend on union-by-rank being maintained (performance, not behaviour)",
    "FenwickTree RI: tree[j] == sum(a[j&(j+1) .. j])",
    "Python float arithmetic modelled as exact real arithmetic",
]
STUBS = []
GOALS = {"quick": ["uf.union.merged", "uf.union.same", "uf.find.compressed", "fw.update", "fw.range_sum"],
         "thorough": ["uf.union.merged", "uf.union.same", "uf.find.compressed", "fw.update", "fw.range_sum"]}


def _mod():
    import importlib
    return importlib.import_module("solvor.utils.data_structures")


def sel(lst, idx):
    """lst[idx] for symbolic idx without forking."""
    if not isinstance(idx, SNum) or not idx.co:
        return lst[int(idx.value()) if isinstance(idx, SNum) else idx]
    r = lst[-1]
    for j in range(len(lst) - 2, -1, -1):
        r = ITE(idx == j, lst[j], r)
    return r


def roots(parent):
    n = len(parent)
    r = list(range(n))
    for _ in range(n):
        r = [sel(parent, r[i]) for i in range(n)]
    return r


def count_true(conds):
    return ssum(ITE(c, 1, 0) for c in conds)


def make_uf(s, n):
    ds = _mod()
    parent = [s.int("parent%d" % i, 0, n - 1) for i in range(n)]
    rank = [s.int("rank%d" % i, 0, None) for i in range(n)]  # arbitrary: answers must not depend on rank values
    height = [s.int("ghost_height%d" % i, 0, n - 1) for i in range(n)]  # ghost witness of acyclicity
    # RI: the parent pointers form a forest
    for i in range(n):
        s.assume(OR(parent[i] == i, sel(height, parent[i]) > height[i]))
    uf = ds.UnionFind.__new__(ds.UnionFind)
    uf._parent = list(parent)
    uf._rank = list(rank)
    uf._count = count_true([parent[i] == i for i in range(n)])
    return uf, parent, rank


def ri_post(uf, n):
    p = uf._parent
    conds = [len(p) == n, len(uf._rank) == n]
    rt = roots(p)
    for i in range(n):
        conds.append(AND(p[i] >= 0, p[i] <= n - 1))
        conds.append(sel(p, rt[i]) == rt[i])  # following n parent links ends in a fixpoint <=> forest
    conds.append(uf._count == count_true([p[i] == i for i in range(n)]))
    return AND(conds)


def h_uf(s, n, op):
    uf, parent, rank = make_uf(s, n)
    pre = roots(parent)
    x = s.int("x", 0, n - 1)
    y = s.int("y", 0, n - 1) if op in ("union", "connected") else None
    if op == "union":
        ret = uf.union(x, y)
        rx, ry = sel(pre, x), sel(pre, y)
        merged = rx != ry
        s.check(IFF(merged, ret), "uf.union.return")
        s.goal("uf.union.merged" if ret else "uf.union.same")
        post = roots(uf._parent)
        conds = []
        for i in range(n):
            for j in range(i + 1, n):
                same_pre = pre[i] == pre[j]
                bridge = AND(OR(pre[i] == rx, pre[i] == ry), OR(pre[j] == rx, pre[j] == ry))
                want = OR(same_pre, bridge)
                got = post[i] == post[j]
                conds.append(IFF(want, got))
        s.check(AND(conds) if conds else True, "uf.union.partition")
        s.check(ri_post(uf, n), "uf.union.RI")
        s.observe("ret", ret)
    elif op == "find":
        p_before = list(uf._parent)
        ret = uf.find(x)
        s.check(ret == sel(pre, x), "uf.find.return")
        post = roots(uf._parent)
        s.check(AND([post[i] == pre[i] for i in range(n)]), "uf.find.partition_unchanged")
        s.check(ri_post(uf, n), "uf.find.RI")
        if any(a is not b for a, b in zip(p_before, uf._parent)):
            s.goal("uf.find.compressed")
        s.observe("ret", ret)
    elif op == "connected":
        ret = uf.connected(x, y)
        want = sel(pre, x) == sel(pre, y)
        s.check(IFF(want, ret), "uf.connected.return")
        post = roots(uf._parent)
        s.check(AND([post[i] == pre[i] for i in range(n)]), "uf.connected.partition_unchanged")
        s.check(ri_post(uf, n), "uf.connected.RI")
        s.observe("ret", ret)
    elif op == "sizes":
        cc = uf.component_count
        sizes = uf.component_sizes()
        nroots = count_true([parent[i] == i for i in range(n)])
        s.check(cc == nroots, "uf.component_count")
        s.check(len(sizes) == nroots, "uf.sizes.number")
        # multiset of sizes: for every k, #components of size k agrees with the abstract partition
        abs_size = [count_true([pre[j] == pre[i] for j in range(n)]) for i in range(n)]
        conds = []
        for k in range(1, n + 1):
            got_k = count_true([sz == k for sz in sizes])
            # abstract: number of elements in classes of size k, divided by k
            want_k_times_k = count_true([abs_size[i] == k for i in range(n)])
            conds.append(got_k * k == want_k_times_k)
        s.check(AND(conds), "uf.sizes.multiset")
        post = roots(uf._parent)
        s.check(AND([post[i] == pre[i] for i in range(n)]), "uf.sizes.partition_unchanged")
        s.check(ri_post(uf, n), "uf.sizes.RI")
        s.observe("sizes", sorted(s.concrete(z) for z in sizes))
    elif op == "components":
        comps = uf.get_components()
        flat = [e for c in comps for e in c]
        s.check(sorted(flat) == list(range(n)), "uf.components.cover_once")
        conds = []
        for a, ca in enumerate(comps):
            la = sorted(ca)
            for e in la[1:]:
                conds.append(pre[e] == pre[la[0]])
            for cb in comps[a + 1:]:
                conds.append(pre[min(cb)] != pre[la[0]])
        s.check(AND(conds) if conds else True, "uf.components.classes")
        post = roots(uf._parent)
        s.check(AND([post[i] == pre[i] for i in range(n)]), "uf.components.partition_unchanged")
        s.check(ri_post(uf, n), "uf.components.RI")
        s.observe("comps", sorted(sorted(c) for c in comps))


def h_uf_base(s, n):
    ds = _mod()
    uf = ds.UnionFind(n)
    s.check(uf._parent == list(range(n)) and all(r == 0 for r in uf._rank) and uf._count == n and len(uf) == n,
            "uf.base.RI")
    s.check(uf.component_count == n, "uf.base.count")
    s.observe("n", len(uf))


# ------------------------------------------------------------------ Fenwick
def fw_tree_of(a):
    n = len(a)
    return [ssum(a[k] for k in range(j & (j + 1), j + 1)) for j in range(n)]


def make_fw(s, n, kind):
    ds = _mod()
    mk = s.int if kind == "int" else s.real
    a = [mk("a%d" % i) for i in range(n)]
    ft = ds.FenwickTree.__new__(ds.FenwickTree)
    ft._n = n
    ft._tree = fw_tree_of(a)
    return ft, a


def h_fw(s, n, kind, op):
    ft, a = make_fw(s, n, kind)
    mk = s.int if kind == "int" else s.real
    if op == "update":
        i = s.int("i", 0, n - 1)
        d = mk("delta")
        ft.update(i, d)
        a2 = [a[k] + ITE(i == k, d, 0) for k in range(n)]
        want = fw_tree_of(a2)
        s.check(AND(AND([ft._tree[j] == want[j] for j in range(n)]), len(ft._tree) == n, ft._n == n), "fw.update.RI")
        s.goal("fw.update")
        s.observe("tree", list(ft._tree))
    elif op == "prefix":
        before = list(ft._tree)
        i = s.int("i", 0, n - 1)
        r = ft.prefix(i)
        s.check(r == ssum(ITE(i >= k, a[k], 0) for k in range(n)), "fw.prefix.value")
        s.check(AND(AND([x == y for x, y in zip(before, ft._tree)]), len(ft._tree) == n), "fw.prefix.state_unchanged")
        s.observe("r", r)
    elif op == "range_sum":
        before = list(ft._tree)
        l = s.int("l", 0, n - 1)
        r_ = s.int("r", 0, n - 1)
        s.assume(l <= r_)
        r = ft.range_sum(l, r_)
        s.check(r == ssum(ITE(AND(l <= k, r_ >= k), a[k], 0) for k in range(n)), "fw.range_sum.value")
        s.check(AND(AND([x == y for x, y in zip(before, ft._tree)]), len(ft._tree) == n), "fw.range_sum.state_unchanged")
        s.goal("fw.range_sum")
        s.observe("r", r)


def h_fw_base(s, n, kind):
    ds = _mod()
    mk = s.int if kind == "int" else s.real
    a = [mk("a%d" % i) for i in range(n)]
    vals = list(a)
    ft = ds.FenwickTree(vals)
    want = fw_tree_of(a)
    s.check(AND(AND([ft._tree[j] == want[j] for j in range(n)]), ft._n == n, len(ft) == n), "fw.base.values.RI")
    s.check(all(x is y for x, y in zip(vals, a)), "fw.base.input_not_mutated")
    z = ds.FenwickTree(n)
    s.check(z._n == n and len(z._tree) == n and all(t == 0 for t in z._tree), "fw.base.zeros.RI")
    s.observe("tree", list(ft._tree))


def items(tier, rng):
    nmax_uf = 4 if tier == "quick" else 5
    nmax_fw = 8 if tier == "quick" else 16
    out = []
    for n in range(1, nmax_uf + 1):
        out.append({"name": "uf_base_%d" % n, "harness": "h_uf_base", "params": {"n": n}})
        for op in ("union", "find", "connected", "sizes", "components"):
            it = {"name": "uf_%s_%d" % (op, n), "harness": "h_uf", "params": {"n": n, "op": op}}
            if n >= 4:
                it["split"] = 6 if n == 4 else 9
            out.append(it)
    for n in range(1, nmax_fw + 1):
        for kind in ("int", "real"):
            out.append({"name": "fw_base_%d%s" % (n, kind), "harness": "h_fw_base", "params": {"n": n, "kind": kind}})
            for op in ("update", "prefix", "range_sum"):
                out.append({"name": "fw_%s_%d%s" % (op, n, kind), "harness": "h_fw",
                            "params": {"n": n, "kind": kind, "op": op}})
    out.sort(key=lambda it: (0 if it["harness"].startswith("h_fw") else 1, -it["params"]["n"]))
    return out

"""C11 - shortest-path solvers: exact distances, genuine paths, right verdicts.

Arc presence (lazy, forked when the solver first asks for a node's neighbours) is structural; weights, heuristic
values, max_cost and max_iter are SMT variables.  Oracle: explicit list of simple paths / simple cycles of the
potential graph; "objective <= weight of every present simple path and == some present path".
"""

import importlib
import itertools

from symx.core import AND, OR, NOT, IMPLIES, ITE, IFF, SNum, SBool, ssum, INF
from symx.stubs import namer

PROPERTY = "C11"
FILES = ["solvor/dijkstra.py", "solvor/a_star.py", "solvor/bfs.py", "solvor/bellman_ford.py", "solvor/floyd_warshall.py",
         "solvor/utils/helpers.py", "solvor/utils/validate.py"]
FUNCTIONS = ["solvor.dijkstra.dijkstra", "solvor.dijkstra.dijkstra_edges[python]", "solvor.a_star.astar", "solvor.a_star.astar_grid",
             "solvor.bfs.bfs", "solvor.bfs.dfs", "solvor.bellman_ford.bellman_ford[python]", "solvor.bellman_ford._reconstruct_indexed",
             "solvor.floyd_warshall.floyd_warshall[python]", "solvor.utils.helpers.reconstruct_path"]
BOUNDS = {
    "quick": "dijkstra/bfs/dfs: potential graph = complete digraph on 4 nodes (astar: 8 potential arcs on 4 nodes incl. a direct and a "
             "back arc) + an 8-arc variant with duplicate arcs and a self loop, unorderable hashable node labels (strings in the max_iter family), goal as predicate, arc presence symbolic Bools read lazily, weights unbounded non-negative Reals, astar "
             "heuristic = ANY consistent function (symbolic h(v)), max_cost / max_iter symbolic; bellman_ford / floyd_warshall / "
             "dijkstra_edges: every arc set on 3 nodes (incl. self loops: 2^9) is too many, so: all 64 loop-free arc sets on 3 nodes + "
             "12 named topologies on 3-4 nodes with self loops / duplicate arcs + (floyd_warshall) every labelling of a 3-arc path through 4 nodes with and without shortcut, weights unbounded Reals of any sign; astar_grid: every "
             "3x3 and 2x3 layout over {free, blocked, terrain}, 4- and 8-neighbour, every admissible built-in heuristic, obstacle value as int / set / other value, every start/goal pair reduced by fixing start=(0,0) "
             "and all goals, terrain cost symbolic >= 1",
    "thorough": "quick with astar on the complete digraph and the 12-arc dirty variant + 5-node sparse skeletons (named + VERIF_SEED-sampled, <=8 potential arcs) for dijkstra/astar/bfs/dfs; all arc "
                "sets with <=5 arcs on 4 nodes for bellman_ford/floyd_warshall; astar_grid 3x4 (4-neighbour) and all heuristics",
}
OUTSIDE = "graphs with more nodes/arcs than the bound; float rounding (weights are exact reals; astar_grid's sqrt(2) is the exact value of the double)"
ASSUMPTIONS = [
    "dijkstra/astar weights are non-negative (documented); astar heuristic consistent and 0 at the goal, weight=1",
    "with max_cost the claim is: distance <= max_cost implies the exact distance is returned; any returned path is genuine and scored faithfully; INFEASIBLE implies unreachable or distance > max_cost",
    "MAX_ITER is accepted only if iterations >= max_iter",
    "floats modelled as exact reals",
]
STUBS = []
GOALS = {"quick": ["dijkstra.path", "dijkstra.infeasible", "astar.path", "bf.unbounded", "bf.path", "fw.unbounded", "fw.dist", "grid.path",
                   "grid.infeasible", "bfs.path", "dfs.path", "maxcost.pruned"],
         "thorough": ["dijkstra.path", "astar.path", "bf.unbounded", "fw.unbounded", "grid.path"]}
OPTS = {"quick": {"path_wall": 20.0}, "thorough": {"path_wall": 30.0}}


def simple_paths(n, arcs, src, dst):
    """All simple (node-disjoint) paths src->dst as lists of arc indices."""
    out = []

    def rec(u, seen, acc):
        if u == dst:
            out.append(list(acc))
            return
        for k, (a, b) in enumerate(arcs):
            if a == u and b not in seen:
                acc.append(k)
                rec(b, seen | {b}, acc)
                acc.pop()

    rec(src, {src}, [])
    return out


def simple_cycles(n, arcs):
    """All simple cycles as lists of arc indices (each cycle once per starting arc-rotation with minimal start node)."""
    out = []

    def rec(start, u, seen, acc):
        for k, (a, b) in enumerate(arcs):
            if a != u:
                continue
            if b == start:
                out.append(list(acc) + [k])
            elif b > start and b not in seen:
                acc.append(k)
                rec(start, b, seen | {b}, acc)
                acc.pop()

    for st in range(n):
        rec(st, st, {st}, [])
    return out


def reach(n, arcs, src):
    r = {src}
    ch = True
    while ch:
        ch = False
        for (a, b) in arcs:
            if a in r and b not in r:
                r.add(b)
                ch = True
    return r


class G:
    def __init__(self, s, n, arcs, sym_presence, wkind, labels=False):
        self.n, self.arcs = n, arcs
        self.name = namer(labels, "v")
        self.inv = {self.name(u): u for u in range(n)}
        self.p = [s.bool("p%d" % k) if sym_presence else True for k in range(len(arcs))]
        if wkind == "nonneg":
            self.w = [s.real("w%d" % k, 0, None) for k in range(len(arcs))]
        elif wkind == "any":
            self.w = [s.real("w%d" % k) for k in range(len(arcs))]
        else:
            self.w = [1] * len(arcs)
        self.asked = []

    def neighbors_w(self, u):
        u = self.inv[u]
        self.asked.append(u)
        for k, (a, b) in enumerate(self.arcs):
            if a == u and bool(self.p[k]):
                yield self.name(b), self.w[k]

    def neighbors(self, u):
        for v, _w in self.neighbors_w(u):
            yield v

    def present(self, path):
        return AND([self.p[k] for k in path])

    def weight(self, path):
        return ssum(self.w[k] for k in path)


def check_path(s, g, res_path, src, dst_ok, objective, tag, weighted=True):
    """Returned path is genuine: starts at src, ends at an accepted goal, consecutive nodes joined by a present arc whose
    weights (best present parallel arc) sum to the objective."""
    ok = isinstance(res_path, list) and len(res_path) >= 1 and all(x in g.inv for x in res_path)
    s.check(ok, tag + ".path_wellformed", detail=repr(res_path))
    if not ok:
        return
    nodes = [g.inv[x] for x in res_path]
    s.check(nodes[0] == src and dst_ok(nodes[-1]), tag + ".path_endpoints", detail=nodes)
    conds, total = [], 0
    for a, b in zip(nodes, nodes[1:]):
        ks = [k for k, e in enumerate(g.arcs) if e == (a, b)]
        if not ks:
            s.check(False, tag + ".path_uses_existing_arcs", detail=(a, b))
            return
        conds.append(OR([g.p[k] for k in ks]))
    s.check(AND(conds), tag + ".path_uses_existing_arcs")
    if weighted:
        # objective equals the sum along SOME choice of present parallel arcs
        choices = []
        per_step = [[k for k, e in enumerate(g.arcs) if e == (a, b)] for a, b in zip(nodes, nodes[1:])]
        for combo in itertools.product(*per_step):
            choices.append(AND(g.present(combo), objective == g.weight(combo)))
        s.check(OR(choices) if choices else objective == 0, tag + ".objective_is_path_weight")
    else:
        s.check(objective == len(nodes) - 1, tag + ".objective_is_path_length")


def h_search(s, algo, n, arcs, src, dst, labels=False, goal_pred=False, use_max_cost=False, use_max_iter=False):
    Status = importlib.import_module("solvor.types").Status
    weighted = algo in ("dijkstra", "astar")
    g = G(s, n, arcs, True, "nonneg" if weighted else "unit", labels)
    paths = simple_paths(n, arcs, src, dst)
    goal = (lambda x: x == g.name(dst)) if goal_pred else g.name(dst)
    kw = {}
    max_cost = max_iter = None
    if use_max_cost:
        max_cost = s.real("max_cost", 0, None)
        kw["max_cost"] = max_cost
    if use_max_iter:
        max_iter = s.int("max_iter", 0, None)
        kw["max_iter"] = max_iter
    if algo == "dijkstra":
        mod = importlib.import_module("solvor.dijkstra")
        res = mod.dijkstra(g.name(src), goal, g.neighbors_w, **kw)
    elif algo == "astar":
        mod = importlib.import_module("solvor.a_star")
        hv = [s.real("h%d" % v, 0, None) for v in range(n)]
        s.assume(hv[dst] == 0)
        for k, (a, b) in enumerate(arcs):
            s.assume(IMPLIES(g.p[k], hv[a] <= g.w[k] + hv[b]))
        res = mod.astar(g.name(src), goal, g.neighbors_w, lambda x: hv[g.inv[x]], **kw)
    elif algo == "bfs":
        mod = importlib.import_module("solvor.bfs")
        res = mod.bfs(g.name(src), goal, g.neighbors, **kw)
    else:
        mod = importlib.import_module("solvor.bfs")
        res = mod.dfs(g.name(src), goal, g.neighbors, **kw)
    st = res.status
    exists = OR([g.present(p) for p in paths])
    s.observe("status", int(st))
    s.observe("objective", res.objective if res.solution is not None else None)
    if st == Status.MAX_ITER:
        s.check(use_max_iter and res.solution is None, algo + ".max_iter_status_legit")
        if use_max_iter:
            s.check(max_iter <= res.iterations, algo + ".max_iter_only_when_exhausted")
        return
    if res.solution is None:
        s.check(st == Status.INFEASIBLE, algo + ".no_path_means_infeasible", detail=str(st))
        if use_max_cost:
            # every present path must cost more than max_cost
            s.check(AND([IMPLIES(g.present(p), g.weight(p) > max_cost) for p in paths]), algo + ".infeasible_only_if_unreachable_or_over_budget")
            s.goal("maxcost.pruned")
        else:
            s.check(NOT(exists), algo + ".infeasible_only_if_unreachable")
        s.goal(algo + ".infeasible")
        return
    s.check(st == (Status.FEASIBLE if algo == "dfs" else Status.OPTIMAL), algo + ".status", detail=str(st))
    check_path(s, g, res.solution, src, lambda x: x == dst, res.objective, algo, weighted)
    if algo == "dfs":
        s.goal("dfs.path")
        return
    if weighted:
        opt = AND([IMPLIES(g.present(p), res.objective <= g.weight(p)) for p in paths])
        if use_max_cost:
            # exact whenever the true distance is within budget
            within = OR([AND(g.present(p), g.weight(p) <= max_cost) for p in paths])
            s.check(IMPLIES(within, opt), algo + ".shortest_when_within_max_cost")
        else:
            s.check(opt, algo + ".objective_is_shortest")
    else:
        s.check(AND([IMPLIES(g.present(p), res.objective <= len(p)) for p in paths]), algo + ".objective_is_fewest_arcs")
    s.goal(algo + ".path")


def h_explore(s, algo, n, arcs, src):
    """bfs/dfs with goal=None return exactly the reachable set."""
    g = G(s, n, arcs, True, "unit")
    mod = importlib.import_module("solvor.bfs")
    res = getattr(mod, algo)(src, None, g.neighbors)
    vis = res.solution
    s.check(isinstance(vis, set), algo + ".explore.type")
    conds = []
    for v in range(n):
        if v == src:
            conds.append(v in vis)
            continue
        r = OR([g.present(p) for p in simple_paths(n, arcs, src, v)])
        conds.append(IFF(r, v in vis))
    s.check(AND(conds), algo + ".explore.visited_is_reachable_set")
    s.observe("visited", sorted(vis))


def h_edges(s, algo, n, arcs, src, target, directed=True):
    """bellman_ford / floyd_warshall / dijkstra_edges on a fixed arc list with symbolic weights."""
    Status = importlib.import_module("solvor.types").Status
    g = G(s, n, arcs, False, "nonneg" if algo == "dijkstra_edges" else "any")
    edges = [(a, b, g.w[k]) for k, (a, b) in enumerate(arcs)]
    eff_arcs = list(arcs)
    eff_w = list(g.w)
    if not directed:
        eff_arcs += [(b, a) for (a, b) in arcs]
        eff_w += list(g.w)
    cycles = simple_cycles(n, eff_arcs)
    wsum = lambda ks: ssum(eff_w[k] for k in ks)
    snapshot = list(edges)
    if algo == "bellman_ford":
        mod = importlib.import_module("solvor.bellman_ford")
        res = mod.bellman_ford(src, edges, n, target=target, backend="python")
        r = reach(n, arcs, src)
        neg = OR([wsum(c) < 0 for c in cycles if eff_arcs[c[0]][0] in r])
        s.check(IFF(res.status == Status.UNBOUNDED, neg), "bf.unbounded_iff_reachable_negative_cycle")
        s.observe("status", int(res.status))
        if res.status == Status.UNBOUNDED:
            s.goal("bf.unbounded")
            return
        dist_of = lambda v: [wsum(p) for p in simple_paths(n, eff_arcs, src, v)]
        if target is not None:
            if target not in r:
                s.check(res.status == Status.INFEASIBLE and res.solution is None, "bf.infeasible_iff_unreachable")
                return
            s.check(res.status == Status.OPTIMAL and res.solution is not None, "bf.infeasible_iff_unreachable", detail=str(res.status))
            if res.solution is None:
                return
            g2 = G.__new__(G)
            g2.n, g2.arcs, g2.inv, g2.p, g2.w, g2.name = n, eff_arcs, {u: u for u in range(n)}, [True] * len(eff_arcs), eff_w, (lambda u: u)
            check_path(s, g2, res.solution, src, lambda x: x == target, res.objective, "bf")
            ds = dist_of(target)
            s.check(AND([res.objective <= d for d in ds]), "bf.objective_is_shortest")
            s.observe("objective", res.objective)
            s.goal("bf.path")
        else:
            d = res.solution
            s.check(isinstance(d, dict) and set(d.keys()) == r, "bf.all.keys_are_reachable_set", detail=repr(sorted(d)) if isinstance(d, dict) else None)
            if not (isinstance(d, dict) and set(d.keys()) == r):
                return
            conds = []
            for v in r:
                ds = dist_of(v) if v != src else [0]
                conds.append(AND([d[v] <= x for x in ds]))
                conds.append(OR([d[v] == x for x in ds]))
            s.check(AND(conds), "bf.all.distances_exact")
            s.observe("dist", {str(k): v for k, v in d.items()})
    elif algo == "floyd_warshall":
        mod = importlib.import_module("solvor.floyd_warshall")
        res = mod.floyd_warshall(n, edges, directed=directed, backend="python")
        neg = OR([wsum(c) < 0 for c in cycles])
        s.check(IFF(res.status == Status.UNBOUNDED, neg), "fw.unbounded_iff_negative_cycle")
        s.observe("status", int(res.status))
        if res.status == Status.UNBOUNDED:
            s.goal("fw.unbounded")
            return
        D = res.solution
        conds = []
        for i in range(n):
            for j in range(n):
                if i == j:
                    conds.append(D[i][j] == 0)
                    continue
                ds = [wsum(p) for p in simple_paths(n, eff_arcs, i, j)]
                if not ds:
                    conds.append(D[i][j] == INF if not isinstance(D[i][j], SNum) else False)
                else:
                    conds.append(AND([D[i][j] <= x for x in ds]))
                    conds.append(OR([D[i][j] == x for x in ds]))
        s.check(AND(conds), "fw.distances_exact")
        s.goal("fw.dist")
        s.observe("D", [[("inf" if (not isinstance(x, SNum) and x == INF) else x) for x in row] for row in D])
    else:
        mod = importlib.import_module("solvor.dijkstra")
        res = mod.dijkstra_edges(n, edges, src, target=target, backend="python")
        r = reach(n, arcs, src)
        if target is not None:
            if target not in r:
                s.check(res.status == Status.INFEASIBLE and res.solution is None, "de.infeasible_iff_unreachable")
                return
            s.check(res.solution is not None and res.status == Status.OPTIMAL, "de.infeasible_iff_unreachable")
            if res.solution is None:
                return
            g2 = G.__new__(G)
            g2.n, g2.arcs, g2.inv, g2.p, g2.w, g2.name = n, eff_arcs, {u: u for u in range(n)}, [True] * len(eff_arcs), eff_w, (lambda u: u)
            check_path(s, g2, res.solution, src, lambda x: x == target, res.objective, "de")
            s.check(AND([res.objective <= wsum(p) for p in simple_paths(n, eff_arcs, src, target)]), "de.objective_is_shortest")
            s.observe("objective", res.objective)
        else:
            d = res.solution
            s.check(isinstance(d, dict) and set(d.keys()) == r, "de.all.keys_are_reachable_set")
            if not (isinstance(d, dict) and set(d.keys()) == r):
                return
            conds = []
            for v in r:
                ds = [wsum(p) for p in simple_paths(n, eff_arcs, src, v)] if v != src else [0]
                conds.append(AND([d[v] <= x for x in ds]))
                conds.append(OR([d[v] == x for x in ds]))
            s.check(AND(conds), "de.all.distances_exact")
            s.observe("dist", {str(k): v for k, v in d.items()})
    s.check(len(edges) == len(snapshot) and all(a is b for a, b in zip(edges, snapshot)), "input_not_mutated")


# ------------------------------------------------------------------------------------------ astar_grid
def grid_paths(rows, cols, cells, start, goal, dirs):
    """All simple paths over non-blocked cells as lists of (dest_cell, is_diagonal)."""
    out = []

    def rec(pos, seen, acc):
        if pos == goal:
            out.append(list(acc))
            return
        r, c = pos
        for dr, dc in dirs:
            nr, nc = r + dr, c + dc
            if 0 <= nr < rows and 0 <= nc < cols and cells[nr][nc] != 1 and (nr, nc) not in seen:
                acc.append(((nr, nc), dr != 0 and dc != 0))
                rec((nr, nc), seen | {(nr, nc)}, acc)
                acc.pop()

    rec(start, {start}, [])
    return out


def h_grid(s, rows, cols, cells, goal, directions, heuristic="auto", blocked=None):
    mod = importlib.import_module("solvor.a_star")
    Status = importlib.import_module("solvor.types").Status
    terrain = s.real("terrain_cost", 1, None)
    costs = {2: terrain}
    grid = [list(r) for r in cells]
    snapshot = [list(r) for r in cells]
    start = (0, 0)
    kw = {}
    if blocked == "set":
        kw["blocked"] = {1}  # the documented set form of the same obstacle value
    elif blocked == "other":
        kw["blocked"] = 7  # another obstacle value: the 1-cells are ordinary free cells now
        cells = [[0 if v == 1 else v for v in r] for r in cells]
    elif blocked == "both":
        kw["blocked"] = {1, 2}  # terrain cells are obstacles too
        cells = [[1 if v == 2 else v for v in r] for r in cells]
    res = mod.astar_grid(grid, start, goal, directions=directions, heuristic=heuristic, costs=costs, **kw)
    dirs = mod._DIRS_8 if directions == 8 else mod._DIRS_4
    paths = grid_paths(rows, cols, cells, start, goal, dirs)
    sq2 = mod._SQRT2
    tol = 1e-9

    def pw(p):
        return ssum((terrain if cells[r][c] == 2 else 1.0) * (sq2 if dg else 1.0) for ((r, c), dg) in p)

    s.check(grid == snapshot, "grid.input_not_mutated")
    s.observe("status", int(res.status))
    if not paths:
        s.check(res.solution is None and res.status == Status.INFEASIBLE, "grid.infeasible_iff_unreachable", detail=str(res.status))
        s.goal("grid.infeasible")
        return
    s.check(res.solution is not None and res.status == Status.OPTIMAL, "grid.infeasible_iff_unreachable", detail=str(res.status))
    if res.solution is None:
        return
    path = res.solution
    okp = path[0] == start and path[-1] == goal and len(set(path)) == len(path)
    steps = []
    for a, b in zip(path, path[1:]):
        d = (b[0] - a[0], b[1] - a[1])
        if d not in dirs or not (0 <= b[0] < rows and 0 <= b[1] < cols) or cells[b[0]][b[1]] == 1:
            okp = False
            break
        steps.append((b, d[0] != 0 and d[1] != 0))
    s.check(okp, "grid.path_is_genuine", detail=repr(path))
    if not okp:
        return
    w = pw(steps)
    s.check(AND(res.objective <= w + tol, res.objective >= w - tol), "grid.objective_is_path_cost")
    s.check(AND([res.objective <= pw(p) + tol for p in paths]), "grid.objective_is_shortest")
    s.observe("objective", res.objective)
    s.goal("grid.path")


# ------------------------------------------------------------------------------------------ items
K4 = [(u, v) for u in range(4) for v in range(4) if u != v]
K4_DIRTY = [(0, 0), (0, 1), (0, 1), (0, 2), (1, 2), (2, 1), (1, 3), (2, 3), (2, 3), (3, 0), (1, 1), (3, 3)]
NAMED_EDGE = {
    "selfloop3": (3, [(0, 0), (0, 1), (1, 2), (1, 1)]),
    "dup3": (3, [(0, 1), (0, 1), (1, 2), (0, 2), (1, 2)]),
    "cyc4": (4, [(0, 1), (1, 2), (2, 3), (3, 1), (0, 3)]),
    "two_cycles4": (4, [(0, 1), (1, 0), (2, 3), (3, 2), (1, 2)]),
    "unreach_cycle4": (4, [(0, 1), (2, 3), (3, 2)]),
    "diamond4": (4, [(0, 1), (0, 2), (1, 3), (2, 3), (1, 2)]),
    "back4": (4, [(0, 1), (1, 2), (2, 0), (2, 3)]),
    "k3loops": (3, [(0, 1), (1, 0), (1, 2), (2, 1), (0, 2), (2, 0), (2, 2)]),
    "chain4": (4, [(0, 1), (1, 2), (2, 3)]),
    "rev_chain4": (4, [(2, 3), (1, 2), (0, 1)]),
    "isolated4": (4, [(0, 1)]),
    "empty3": (3, []),
}
SPARSE5 = {
    "ladder5": (5, [(0, 1), (0, 2), (1, 3), (2, 3), (1, 2), (3, 4), (2, 4), (4, 0)]),
    "detour5": (5, [(0, 4), (0, 1), (1, 2), (2, 3), (3, 4), (1, 4), (2, 4)]),
    "cyc5": (5, [(0, 1), (1, 2), (2, 0), (2, 3), (3, 4), (4, 2), (1, 4)]),
}


def items(tier, rng):
    out = []
    q = tier == "quick"
    # lazy-presence searches on K4
    DIRTY8 = [(0, 0), (0, 1), (0, 1), (0, 2), (1, 2), (2, 1), (1, 3), (2, 3)]
    A8 = [(0, 1), (0, 2), (1, 2), (2, 1), (1, 3), (2, 3), (3, 0), (0, 3)]
    for algo in ("dijkstra", "astar", "bfs", "dfs"):
        heavy = algo == "astar"
        out.append({"name": algo + "_k4", "harness": "h_search", "split": 10,
                    "params": {"algo": algo, "n": 4, "arcs": A8 if (q and heavy) else K4, "src": 0, "dst": 3}})
        out.append({"name": algo + "_k4dirty", "harness": "h_search", "split": 10,
                    "params": {"algo": algo, "n": 4, "arcs": DIRTY8 if q else K4_DIRTY, "src": 0, "dst": 3, "labels": "opaque", "goal_pred": True}})
    K3 = [(u, v) for u in range(3) for v in range(3) if u != v]
    for algo in ("dijkstra", "astar"):
        out.append({"name": algo + "_k3_maxcost", "harness": "h_search", "split": 5,
                    "params": {"algo": algo, "n": 3, "arcs": K3, "src": 0, "dst": 2, "use_max_cost": True}})
        out.append({"name": algo + "_diamond_maxcost", "harness": "h_search", "split": 5,
                    "params": {"algo": algo, "n": 4, "arcs": NAMED_EDGE["diamond4"][1] + [(3, 0)], "src": 0, "dst": 3, "use_max_cost": True}})
    for algo in ("dijkstra", "astar", "bfs", "dfs"):
        out.append({"name": algo + "_k3_maxiter", "harness": "h_search",
                    "params": {"algo": algo, "n": 3, "arcs": K3, "src": 0, "dst": 2, "use_max_iter": True, "labels": "str"}})
    for algo in ("dijkstra", "astar", "bfs", "dfs"):  # the start is already the goal
        out.append({"name": algo + "_src_is_dst", "harness": "h_search",
                    "params": {"algo": algo, "n": 3, "arcs": [(0, 1), (1, 2), (2, 0), (0, 0)], "src": 0, "dst": 0, "goal_pred": algo in ("astar", "dfs")}})
    for algo in ("bfs", "dfs"):
        out.append({"name": algo + "_explore_k4", "harness": "h_explore", "split": 5, "params": {"algo": algo, "n": 4, "arcs": K4, "src": 0}})
    # fixed-topology, symbolic-weight solvers
    topo = []
    for k in range(0, 7):
        for sub in itertools.combinations(K3, k):
            topo.append((3, list(sub)))
    topo += list(NAMED_EDGE.values())
    # every labelling of a 3-arc path through 4 nodes (intermediate labels in every order), alone and with a direct shortcut arc
    for perm in itertools.permutations(range(4)):
        arcs = [(perm[0], perm[1]), (perm[1], perm[2]), (perm[2], perm[3])]
        topo.append((4, arcs))
        if perm[0] < perm[3]:
            topo.append((4, arcs + [(perm[0], perm[3])]))
    if not q:
        for k in range(0, 6):
            for sub in itertools.combinations(K4, k):
                topo.append((4, list(sub)))
    for (n, arcs) in topo:
        for algo in ("bellman_ford", "dijkstra_edges"):
            if n == 4 and len(arcs) in (3, 4) and (n, arcs) not in list(NAMED_EDGE.values()):
                continue  # the permuted-path family is for the all-pairs solver
            for target in (None, n - 1, 0):  # 0: the target is the source itself (still UNBOUNDED if a negative cycle is reachable)
                if target == 0 and (len(arcs) + n) % 2:
                    continue
                out.append({"name": "%s_%d_%s" % (algo, n, "".join("%d%d" % a for a in arcs)), "harness": "h_edges",
                            "params": {"algo": algo, "n": n, "arcs": arcs, "src": 0, "target": target}})
            if (len(arcs) + n) % 2 == 0 and arcs:  # node 0 as the target of a search that starts elsewhere (0 is falsy: "no target" must be `is None`)
                out.append({"name": "%s_to0_%d_%s" % (algo, n, "".join("%d%d" % a for a in arcs)), "harness": "h_edges",
                            "params": {"algo": algo, "n": n, "arcs": arcs, "src": n - 1, "target": 0}})
        for directed in (True, False):
            if not directed and len(arcs) > 4:
                continue
            out.append({"name": "fw_%d_%s_%s" % (n, "".join("%d%d" % a for a in arcs), directed), "harness": "h_edges",
                        "params": {"algo": "floyd_warshall", "n": n, "arcs": arcs, "src": 0, "target": None, "directed": directed}})
    # grids
    ngrid = 0
    shapes = [(3, 3), (2, 3)] if q else [(3, 3), (2, 3), (3, 4)]
    for (R, C) in shapes:
        layouts = list(itertools.product((0, 1, 2), repeat=R * C - 1))
        if q and len(layouts) > 700:
            layouts = [l for l in layouts if l.count(2) <= 2]
            layouts = rng.sample(layouts, 500)
        if not q and len(layouts) > 6000:
            layouts = rng.sample(layouts, 6000)
        for lay in layouts:
            cells = [[0] + list(lay[:C - 1])] + [list(lay[C - 1 + (r - 1) * C: C - 1 + r * C]) for r in range(1, R)]
            for directions in (4, 8):
                if directions == 8 and R * C > 9:
                    continue
                goals = [(R - 1, C - 1)] if q else [(R - 1, C - 1), (0, C - 1), (R - 1, 0)]
                for goal in goals:
                    if cells[goal[0]][goal[1]] == 1:
                        continue
                    allh = ["auto", "euclidean", "chebyshev", "octile"] + (["manhattan"] if directions == 4 else [])  # the admissible ones
                    ngrid += 1
                    hs = [allh[ngrid % len(allh)]] if q else allh
                    for hname in hs:
                        prm = {"rows": R, "cols": C, "cells": cells, "goal": goal, "directions": directions, "heuristic": hname}
                        if ngrid % 7 == 3:
                            prm["blocked"] = ("set", "other", "both")[(ngrid // 7) % 3]
                        out.append({"name": "grid%dx%d" % (R, C), "harness": "h_grid", "params": prm})
    if not q:
        for nm, (n, arcs) in SPARSE5.items():
            for algo in ("dijkstra", "astar", "bfs", "dfs"):
                out.append({"name": algo + "_" + nm, "harness": "h_search", "split": 7,
                            "params": {"algo": algo, "n": n, "arcs": arcs, "src": 0, "dst": n - 1}})
        for i in range(12):
            n = 5
            cand = [(u, v) for u in range(n) for v in range(n)]
            arcs = [rng.choice(cand) for _ in range(8)]
            for algo in ("dijkstra", "astar"):
                out.append({"name": "%s_rand5_%d" % (algo, i), "harness": "h_search", "split": 7,
                            "params": {"algo": algo, "n": n, "arcs": arcs, "src": 0, "dst": n - 1}})
    return out


def params_from_json(p):
    p = dict(p)
    if "arcs" in p:
        p["arcs"] = [tuple(a) for a in p["arcs"]]
    if "goal" in p and isinstance(p["goal"], list):
        p["goal"] = tuple(p["goal"])
    return p

"""C03 - LP verdicts and optima (simplex; interior point exits).

A (small integers) is structural so that every pivot stays linear; the right-hand side b (pass "b") or the objective c (pass "c")
is a vector of UNBOUNDED SMT Reals; the optimality claim "no feasible point is better" is one z3 query with fresh existential y.
"""

import importlib
import itertools
from fractions import Fraction

from symx.core import AND, OR, NOT, IMPLIES, ITE, IFF, SNum, ssum, sabs, sym_float, sym_int, sym_sqrt
from symx.stubs import sym_array

PROPERTY = "C03"
FILES = ["solvor/simplex.py", "solvor/interior_point.py", "solvor/utils/validate.py"]
FUNCTIONS = ["solvor.simplex.solve_lp", "solvor.simplex._phase1", "solvor.simplex._phase2", "solvor.simplex._pivot", "solvor.simplex._extract",
             "solvor.interior_point.solve_lp_interior (exit tests from an arbitrary interior state; see bounds)"]
TAU = Fraction(1, 10 ** 7)
BOUNDS = {
    "quick": "simplex: every A in {-1,0,1}^(m x n) for m,n<=2 and a VERIF_SEED sample of A in {-2..2}^(m x n) up to 3x3 (structure), minimize and "
             "maximize; pass b: b unbounded Reals with c from {-1,0,1,2}^n sampled; pass c: c unbounded Reals with b from {-2..3}^m sampled; "
             "tolerance 1e-7 on feasibility/objective (eps=1e-10 guards are executed exactly); max_iter in 0..3 on a sample. "
             "interior point: FEASIBLE / MAX_ITER / OPTIMAL exits from an arbitrary interior state for 1x1..2x2 (see evidence.assumptions)",
    "thorough": "every A in {-2..2}^(m x n), m,n<=2, all c / b grid points; 3x2, 2x3, 3x3 samples x10; bilinear pass (b and c symbolic) on 2x2 {-1,0,1}",
}
OUTSIDE = ("A beyond the enumerated/sampled integer matrices; badly scaled data; float rounding (exact reals); interior point: convergence over "
           "many iterations, the Newton step itself (cut), optimality gap for sizes above 1x1")
ASSUMPTIONS = [
    "floats modelled as exact reals; array('d') replaced by a list shim (symx.stubs.sym_array) in solvor.simplex",
    "verdicts are judged with tolerance tau=1e-7: OPTIMAL => x is tau-feasible, objective = c.x within tau, no exactly feasible y is better by more than tau; "
    "INFEASIBLE => the exact feasible set is empty; UNBOUNDED => tau-feasible and a recession direction with improving objective exists; MAX_ITER only if iterations == max_iter",
    "interior point: _initialize is replaced by a stub returning an ARBITRARY state with x,z >= eps and |x|,|y|,|z| <= 100 (the loop's invariant; well-scaled hypothesis); _solve_newton cut",
]
STUBS = ["solvor.simplex.array := list shim", "solvor.interior_point._initialize := arbitrary interior state", "solvor.interior_point.sqrt := symbolic sqrt",
         "solvor.interior_point._solve_newton := cut"]
GOALS = {"quick": ["lp.optimal", "lp.infeasible", "lp.unbounded", "lp.phase1", "lp.maximize", "lp.max_iter", "ip.feasible_exit"],
         "thorough": ["lp.optimal", "lp.infeasible", "lp.unbounded", "lp.phase1"]}
OPTS = {"quick": {"qto": 20000, "path_wall": 60.0}, "thorough": {"qto": 30000, "path_wall": 120.0}}


def K(v):
    """exact constant proxy (keeps pivots exact: 1/3 is 1/3)"""
    return SNum.const(Fraction(v), isint=False)


def dot(a, b):
    return ssum(x * y for x, y in zip(a, b))


def h_lp(s, A, mode, fixed, minimize, max_iter=None):
    """mode 'b': b symbolic, c=fixed; mode 'c': c symbolic, b=fixed; mode 'bc': both symbolic."""
    Status = importlib.import_module("solvor.types").Status
    mod = importlib.import_module("solvor.simplex")
    m, n = len(A), len(A[0])
    sym = s.symbolic
    if mode in ("b", "bc"):
        b = [s.real("b%d" % i) for i in range(m)]
    else:
        b = [K(v) if sym else float(v) for v in fixed]
    if mode in ("c", "bc"):
        c = [s.real("c%d" % j) for j in range(n)]
    else:
        c = [K(v) if sym else float(v) for v in (fixed if mode == "b" else fixed)]
    if mode == "bc":
        pass
    Ain = [[K(v) if sym else float(v) for v in row] for row in A]
    s.stub(mod, array=sym_array)
    kw = {}
    if max_iter is not None:
        kw["max_iter"] = max_iter
    res = mod.solve_lp(list(c), [list(r) for r in Ain], list(b), minimize=minimize, **kw)
    st = res.status
    x = list(res.solution) if res.solution is not None else None
    s.observe("status", int(st))
    tau = TAU
    sign = 1 if minimize else -1
    y = [s.fresh_real("y%d" % j) for j in range(n)]
    feas_y = AND([yy >= 0 for yy in y] + [dot(A[i], y) <= b[i] for i in range(m)])
    if st == Status.MAX_ITER:
        s.check(max_iter is not None and res.iterations == max_iter, "lp.max_iter_only_when_exhausted", detail=res.iterations)
        s.goal("lp.max_iter")
        return
    if st == Status.INFEASIBLE:
        s.check(NOT(feas_y), "lp.infeasible_only_if_no_feasible_point")
        s.goal("lp.infeasible")
        return
    if st == Status.UNBOUNDED:
        # a feasible point exists (tau-relaxed) and some direction d>=0, A d<=0 improves the objective
        d = [s.fresh_real("d%d" % j) for j in range(n)]
        ray = AND([dd >= 0 for dd in d] + [dot(A[i], d) <= 0 for i in range(m)] + [sign * dot(c, d) < 0])
        relaxed = AND([yy >= 0 for yy in y] + [dot(A[i], y) <= b[i] + tau for i in range(m)])
        # "exists" obligations: validity of NOT(exists) must be refuted -> we check satisfiability via the negation trick:
        s.check_exists(y + d, AND(ray, relaxed), "lp.unbounded_only_if_feasible_and_improving_ray")
        s.goal("lp.unbounded")
        return
    s.check(st == Status.OPTIMAL, "lp.status_known", detail=str(st))
    if x is None or len(x) != n:
        s.check(False, "lp.solution_shape")
        return
    s.check(AND([xx >= -tau for xx in x] + [dot(A[i], x) <= b[i] + tau for i in range(m)]), "lp.optimal_point_is_feasible")
    cx = dot(c, x)
    s.check(AND(res.objective - cx <= tau, cx - res.objective <= tau), "lp.objective_is_c_dot_x")
    s.check(IMPLIES(feas_y, sign * dot(c, y) >= sign * res.objective - tau), "lp.no_feasible_point_is_better")
    s.goal("lp.optimal")
    if not minimize:
        s.goal("lp.maximize")
    s.observe("objective", res.objective)
    s.observe("x", x)


# ------------------------------------------------------------------------------------------ interior point
def h_ip(s, A, c, minimize, max_iter):
    """Exit tests of solve_lp_interior from an arbitrary interior state. b symbolic."""
    Status = importlib.import_module("solvor.types").Status
    mod = importlib.import_module("solvor.interior_point")
    m, n = len(A), len(A[0])
    b = [s.real("b%d" % i, -50, 50) for i in range(m)]
    N = n + m  # with slacks
    eps = 1e-8
    xs = [s.real("x%d" % j, eps, 100) for j in range(N)]
    ys = [s.real("yy%d" % i, -100, 100) for i in range(m)]
    zs = [s.real("z%d" % j, eps, 100) for j in range(N)]

    def init_stub(*a, **k):
        return list(xs), list(ys), list(zs)

    def newton_cut(*a, **k):
        s.cut("Newton step not modelled")

    if s.symbolic:
        s.stub(mod, _initialize=init_stub, _solve_newton=newton_cut, sqrt=sym_sqrt)
    else:
        s.patch(mod, _initialize=lambda *a, **k: ([float(v) for v in xs], [float(v) for v in ys], [float(v) for v in zs]))
    Ain = [[float(v) for v in row] for row in A]
    res = mod.solve_lp_interior([float(v) for v in c], Ain, list(b), minimize=minimize, max_iter=max_iter)
    st = res.status
    s.observe("status", int(st))
    x = list(res.solution) if res.solution is not None else None
    if st in (Status.FEASIBLE, Status.OPTIMAL):
        tol = 0.01 if st == Status.FEASIBLE else 1e-6
        s.check(x is not None and len(x) == n, "ip.solution_shape")
        s.check(AND([xx >= 0 for xx in x] + [dot(A[i], x) <= b[i] + tol * (1 + 0) + 1e-9 for i in range(m)]),
                "ip.%s_point_is_primal_feasible" % st.name.lower())
        cx = dot(c, x)
        s.check(AND(res.objective - cx <= 1e-9, cx - res.objective <= 1e-9), "ip.objective_is_c_dot_x")
        s.goal("ip.feasible_exit" if st == Status.FEASIBLE else "ip.optimal_exit")
        s.observe("x", x)
    else:
        s.check(st in (Status.MAX_ITER, Status.INFEASIBLE, Status.UNBOUNDED), "ip.status_known", detail=str(st))
        s.goal("ip.other_exit")


def _mats(m, n, vals):
    for flat in itertools.product(vals, repeat=m * n):
        yield [list(flat[i * n:(i + 1) * n]) for i in range(m)]


def items(tier, rng):
    out = []
    q = tier == "quick"
    cells = []
    small = (-1, 0, 1)
    wide = (-2, -1, 0, 1, 2)
    for (m, n) in [(1, 1), (1, 2), (2, 1), (2, 2)]:
        for A in _mats(m, n, small if q else wide):
            cells.append(A)
    if q:
        cells = [A for A in cells if len(A) * len(A[0]) < 4] + rng.sample([A for A in cells if len(A) * len(A[0]) == 4], 40)
    extra = []
    for (m, n, k) in [(2, 2, 30), (3, 2, 16), (2, 3, 16), (3, 3, 8)]:
        for _ in range(k if q else 10 * k):
            extra.append([[rng.choice(wide) for _ in range(n)] for _ in range(m)])
    cgrid = (-1, 0, 1, 2)
    bgrid = (-2, -1, 0, 1, 3)
    for A in cells + extra:
        m, n = len(A), len(A[0])
        cs = list(itertools.product(cgrid, repeat=n))
        bs = list(itertools.product(bgrid, repeat=m))
        kq = 2 if q else (len(cs) if n <= 2 else 8)
        for cvec in (rng.sample(cs, min(kq, len(cs)))):
            mn = rng.random() < 0.5 if q else True
            for minimize in ((mn,) if q else (True, False)):
                out.append({"name": "lp_b_%dx%d" % (m, n), "harness": "h_lp",
                            "params": {"A": A, "mode": "b", "fixed": list(cvec), "minimize": minimize}})
        kq = 2 if q else (len(bs) if m <= 2 else 8)
        for bvec in (rng.sample(bs, min(kq, len(bs)))):
            mn = rng.random() < 0.5
            for minimize in ((mn,) if q else (True, False)):
                out.append({"name": "lp_c_%dx%d" % (m, n), "harness": "h_lp",
                            "params": {"A": A, "mode": "c", "fixed": list(bvec), "minimize": minimize}})
    # max_iter limits
    for A in rng.sample(cells + extra, 12 if q else 100):
        n = len(A[0])
        for mi in (0, 1, 2, 3):
            out.append({"name": "lp_maxiter", "harness": "h_lp",
                        "params": {"A": A, "mode": "b", "fixed": [rng.choice(cgrid) for _ in range(n)], "minimize": True, "max_iter": mi}})
    if not q:
        for A in list(_mats(2, 2, small)):
            out.append({"name": "lp_bc_2x2", "harness": "h_lp", "params": {"A": A, "mode": "bc", "fixed": None, "minimize": True},
                        "wall_s": 120, "query_timeout_ms": 20000})
    # interior point exits
    ipA = [[[1]], [[1, 1]], [[1], [1]], [[1, 2], [3, 1]], [[1, -1], [1, 1]], [[2, 1]]]
    for A in ipA:
        n = len(A[0])
        for cvec in ([1] * n, [-1] * n, [1, -2][:n]):
            for minimize in (True, False):
                out.append({"name": "ip_exit0", "harness": "h_ip", "params": {"A": A, "c": cvec, "minimize": minimize, "max_iter": 0}})
    return out

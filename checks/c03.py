"""C03 - LP verdicts and optima (simplex; interior point exits).

A (small integers) is structural so that every pivot stays linear; the right-hand side b (pass "b") or the objective c (pass "c")
is a vector of UNBOUNDED SMT Reals; the optimality claim "no feasible point is better" is one z3 query with fresh existential y.
"""

import importlib
import itertools
from fractions import Fraction

from symx.core import AND, OR, NOT, IMPLIES, ITE, IFF, SNum, ssum, sabs, sym_float, sym_int, sym_sqrt, sym_sqrt_weak
from symx.stubs import sym_array

PROPERTY = "C03"
FILES = ["solvor/simplex.py", "solvor/interior_point.py", "solvor/utils/validate.py"]
FUNCTIONS = ["solvor.simplex.solve_lp", "solvor.simplex._phase1", "solvor.simplex._phase2", "solvor.simplex._pivot", "solvor.simplex._extract",
             "solvor.interior_point.solve_lp_interior (exit tests from an arbitrary interior state; see bounds)"]
TAU = Fraction(1, 10 ** 7)
BOUNDS = {
    "quick": "simplex: every A in {-1,0,1}^(m x n) for m,n<=2 and a VERIF_SEED sample (152) of A in {-2..2}^(m x n) up to 3x3, minimize and "
             "maximize, 2 sampled grid vectors per pass; pass b: b unbounded Reals, c from {-1,0,1,2}^n sampled; pass c: c = k/8 with k unbounded Ints, b from {-2..3}^m sampled; "
             "tolerance 1e-7 on feasibility/objective (eps=1e-10 guards are executed exactly); max_iter in 0..3 on a sample. "
             "interior point: FEASIBLE / MAX_ITER / OPTIMAL exits from an arbitrary interior state for 1x1..2x2 (see evidence.assumptions); plus, natively on every path witness, "
             "the unstubbed solver with its default budget must not raise and an OPTIMAL answer must match the simplex optimum (solver-generated tests, not a for-all verdict)",
    "thorough": "every A in {-2..2}^(m x n), m,n<=2, all c / b grid points; 3x2, 2x3, 3x3 samples x10; bilinear pass (b and c symbolic) on 2x2 {-1,0,1}",
}
OUTSIDE = ("A beyond the enumerated/sampled integer matrices; badly scaled data; float rounding (exact reals); interior point: convergence over "
           "many iterations, the Newton step itself (cut), optimality gap for sizes above 1x1")
ASSUMPTIONS = [
    "floats modelled as exact reals; array('d') replaced by a list shim (symx.stubs.sym_array) in solvor.simplex",
    "verdicts are judged with tolerance tau=1e-7: OPTIMAL => x is tau-feasible, objective = c.x within tau, no exactly feasible y is better by more than tau; "
    "INFEASIBLE => the exact feasible set is empty; UNBOUNDED => the returned point is tau-feasible and the dual is infeasible (an improving recession direction exists); MAX_ITER only if iterations == max_iter",
    "pass b: b ranges over ALL reals (eps-band effects on the right-hand side are absorbed by tau); pass c: symbolic costs are multiples of 1/8 (unbounded numerators): the property quantifies over well-scaled LPs with integer or small rational data; arbitrary reals would include costs inside the solver's eps=1e-10 band",
    "interior point: _initialize is replaced by a stub returning an ARBITRARY state with x,z >= eps and |x|,|y|,|z| <= 100 (the loop's invariant; well-scaled hypothesis); _solve_newton cut",
]
STUBS = ["solvor.simplex.array := list shim", "solvor.interior_point._initialize := arbitrary interior state", "solvor.interior_point.sqrt := sound linear over-approximation (fresh t >= |r_i| for each squared residual)",
         "solvor.interior_point._solve_newton := cut"]
GOALS = {"quick": ["lp.optimal", "lp.infeasible", "lp.unbounded", "lp.phase1", "lp.maximize", "lp.max_iter", "ip.feasible_exit", "ip.optimal_exit", "ip.native_full_run"],
         "thorough": ["lp.optimal", "lp.infeasible", "lp.unbounded", "lp.phase1"]}
OPTS = {"quick": {"qto": 8000, "path_wall": 40.0, "arith_solver": 2}, "thorough": {"qto": 30000, "path_wall": 120.0, "arith_solver": 2}}


def K(v):
    """exact constant proxy (keeps pivots exact: 1/3 is 1/3)"""
    return SNum.const(Fraction(v), isint=False)


def dot(a, b):
    return ssum(x * y for x, y in zip(a, b))


def _solve_square(M, r):
    """Gaussian elimination over Fractions; returns solution or None if singular."""
    n = len(M)
    M = [[Fraction(v) for v in row] + [Fraction(rr)] for row, rr in zip(M, r)]
    for col in range(n):
        piv = next((i for i in range(col, n) if M[i][col] != 0), None)
        if piv is None:
            return None
        M[col], M[piv] = M[piv], M[col]
        pv = M[col][col]
        M[col] = [v / pv for v in M[col]]
        for i in range(n):
            if i != col and M[i][col] != 0:
                f = M[i][col]
                M[i] = [a - f * b for a, b in zip(M[i], M[col])]
    return [M[i][n] for i in range(n)]


def vertices_and_rays(A, b):
    """Vertices of {y>=0, A y<=b} and extreme rays of its recession cone {d>=0, A d<=0} (exact, Fractions)."""
    m, n = len(A), len(A[0])
    rows = [([Fraction(v) for v in A[i]], Fraction(b[i])) for i in range(m)]
    rows += [([Fraction(-1 if j == k else 0) for k in range(n)], Fraction(0)) for j in range(n)]  # -y_j <= 0
    verts = []
    for idx in itertools.combinations(range(m + n), n):
        sol = _solve_square([rows[i][0] for i in idx], [rows[i][1] for i in idx])
        if sol is None:
            continue
        if all(sum(a * y for a, y in zip(rw, sol)) <= rh for rw, rh in rows) and sol not in verts:
            verts.append(sol)
    rays = []
    if n == 1:
        cands = [[Fraction(1)]]
    else:
        cands = []
        for idx in itertools.combinations(range(m + n), n - 1):
            sub = [rows[i][0] for i in idx]
            # null space of sub ((n-1) x n): try fixing each coordinate to 1
            for fix in range(n):
                M = sub + [[Fraction(1 if k == fix else 0) for k in range(n)]]
                sol = _solve_square(M, [0] * (n - 1) + [1])
                if sol is not None:
                    cands.append(sol)
                    cands.append([-v for v in sol])
                    break
    for d in cands:
        if any(v != 0 for v in d) and all(sum(a * y for a, y in zip(rw, d)) <= 0 for rw, _rh in rows):
            sc = max(abs(v) for v in d)
            dn = [v / sc for v in d]
            if dn not in rays:
                rays.append(dn)
    return verts, rays


def h_lp(s, A, mode, fixed, minimize, max_iter=None):
    """mode 'b': b symbolic, c=fixed; mode 'c': c symbolic, b=fixed; mode 'bc': both symbolic."""
    Status = importlib.import_module("solvor.types").Status
    mod = importlib.import_module("solvor.simplex")
    m, n = len(A), len(A[0])
    sym = s.symbolic
    # "well-scaled, small rational data": symbolic entries are k/8 with k an UNBOUNDED Int (so no value falls inside an eps band)
    def q8(name):
        k = s.int(name)
        return k / 8 if s.symbolic else k / 8.0
    if mode in ("b", "bc"):
        b = [s.real("b%d" % i) for i in range(m)]  # all reals: eps-band effects on the rhs stay within tau (see ASSUMPTIONS)
    else:
        b = [K(v) if sym else float(v) for v in fixed]
    if mode in ("c", "bc"):
        c = [q8("c8_%d" % j) for j in range(n)]
    else:
        c = [K(v) if sym else float(v) for v in fixed]
    Ain = [[K(v) if sym else float(v) for v in row] for row in A]
    s.stub(mod, array=sym_array)
    kw = {}
    if max_iter is not None:
        kw["max_iter"] = max_iter
    res = mod.solve_lp(list(c), [list(r) for r in Ain], list(b), minimize=minimize, **kw)
    st = res.status
    x = list(res.solution) if res.solution is not None else None
    s.observe("status", int(st))
    tau = TAU
    sign = 1 if minimize else -1
    y = [s.fresh_real("y%d" % j) for j in range(n)]
    feas_y = AND([yy >= 0 for yy in y] + [dot(A[i], y) <= b[i] for i in range(m)])
    if mode == "c":
        verts, rays = vertices_and_rays(A, fixed)      # the polyhedron is concrete in this pass: obligations are linear in c
    else:
        _v, rays = vertices_and_rays(A, [0] * m)       # recession cone does not depend on b
        verts = None
    if st == Status.MAX_ITER:
        s.check(max_iter is not None and res.iterations == max_iter, "lp.max_iter_only_when_exhausted", detail=res.iterations)
        s.goal("lp.max_iter")
        return
    if st == Status.INFEASIBLE:
        if mode == "c":
            s.check(len(verts) == 0, "lp.infeasible_only_if_no_feasible_point", detail=repr(verts[:1]))
        else:
            s.check(NOT(feas_y), "lp.infeasible_only_if_no_feasible_point")
        s.goal("lp.infeasible")
        s.goal("lp.phase1")
        return
    if st == Status.UNBOUNDED:
        s.check(x is not None and len(x) == n, "lp.solution_shape")
        s.check(AND([xx >= -tau for xx in x] + [dot(A[i], x) <= b[i] + tau for i in range(m)]), "lp.unbounded_point_is_feasible")
        s.check(OR([sign * dot(c, r) < 0 for r in rays]), "lp.unbounded_only_if_improving_ray_exists")
        s.goal("lp.unbounded")
        return
    s.check(st == Status.OPTIMAL, "lp.status_known", detail=str(st))
    if x is None or len(x) != n:
        s.check(False, "lp.solution_shape")
        return
    s.check(AND([xx >= -tau for xx in x] + [dot(A[i], x) <= b[i] + tau for i in range(m)]), "lp.optimal_point_is_feasible")
    cx = dot(c, x)
    s.check(AND(res.objective - cx <= tau, cx - res.objective <= tau), "lp.objective_is_c_dot_x")
    if mode == "c":
        s.check(AND([sign * dot(c, v) >= sign * res.objective - tau for v in verts] + [sign * dot(c, r) >= -tau for r in rays]),
                "lp.no_feasible_point_is_better")
    else:
        s.check(IMPLIES(feas_y, sign * dot(c, y) >= sign * res.objective - tau), "lp.no_feasible_point_is_better")
        s.check(AND([sign * dot(c, r) >= -tau for r in rays]), "lp.optimal_only_if_bounded")
    s.goal("lp.optimal")
    if not minimize:
        s.goal("lp.maximize")
    s.observe("objective", res.objective)
    s.observe("x_len", len(x))


# ------------------------------------------------------------------------------------------ interior point
def h_ip(s, A, c, minimize, max_iter):
    """Exit tests of solve_lp_interior from an arbitrary interior state. b symbolic."""
    Status = importlib.import_module("solvor.types").Status
    mod = importlib.import_module("solvor.interior_point")
    m, n = len(A), len(A[0])
    b = [s.real("b%d" % i, -50, 50) for i in range(m)]
    N = n + m  # with slacks
    eps = 1e-8
    xs = [s.real("x%d" % j, eps, 100) for j in range(N)]
    ys = [s.real("yy%d" % i, -100, 100) for i in range(m)]
    zs = [s.real("z%d" % j, eps, 100) for j in range(N)]

    def init_stub(*a, **k):
        return list(xs), list(ys), list(zs)

    def newton_cut(*a, **k):
        s.cut("Newton step not modelled")

    if s.symbolic:
        s.stub(mod, _initialize=init_stub, _solve_newton=newton_cut, sqrt=sym_sqrt_weak)
    else:
        s.patch(mod, _initialize=lambda *a, **k: ([float(v) for v in xs], [float(v) for v in ys], [float(v) for v in zs]))
    Ain = [[float(v) for v in row] for row in A]
    res = mod.solve_lp_interior([float(v) for v in c], Ain, list(b), minimize=minimize, max_iter=max_iter)
    st = res.status
    # (no status observation here: the weak sqrt stub over-approximates both sides of the exit tests, so some symbolic paths have no native twin)
    x = list(res.solution) if res.solution is not None else None
    if st in (Status.FEASIBLE, Status.OPTIMAL):
        tol = 0.01 if st == Status.FEASIBLE else 1e-6
        s.check(x is not None and len(x) == n, "ip.solution_shape")
        s.check(AND([xx >= 0 for xx in x] + [dot(A[i], x) <= b[i] + tol + 1e-9 for i in range(m)]),
                "ip.%s_point_is_primal_feasible" % st.name.lower())
        cx = dot(c, x)
        s.check(AND(res.objective - cx <= 1e-9, cx - res.objective <= 1e-9), "ip.objective_is_c_dot_x")
        if st == Status.OPTIMAL and m * n == 1:
            sign = 1 if minimize else -1
            yv = [s.fresh_real("y%d" % j) for j in range(n)]
            feas = AND([v >= 0 for v in yv] + [dot(A[i], yv) <= b[i] for i in range(m)])
            s.check(IMPLIES(feas, sign * dot(c, yv) >= sign * res.objective - 1e-3), "ip.optimal_objective_matches_true_optimum")
        s.goal("ip.feasible_exit" if st == Status.FEASIBLE else "ip.optimal_exit")
        s.observe("x", x)
    else:
        s.check(st in (Status.MAX_ITER, Status.INFEASIBLE, Status.UNBOUNDED), "ip.status_known", detail=str(st))
        s.goal("ip.other_exit")
    if not s.symbolic:
        # Native layer (not a for-all verdict): the path's witness right-hand side goes through the REAL, unstubbed solver with its default
        # iteration budget; it must not raise, and an OPTIMAL answer must be feasible and agree with the simplex optimum.
        s._restore()
        smod = importlib.import_module("solvor.simplex")
        bw = [float(v) for v in b]
        try:
            full = mod.solve_lp_interior([float(v) for v in c], Ain, bw, minimize=minimize)
        except Exception as e:  # noqa: BLE001
            s.check(False, "native:ip.full_run_does_not_crash", detail="%s: %s" % (type(e).__name__, e))
            return
        s.check(True, "native:ip.full_run_does_not_crash")
        if full.status == Status.OPTIMAL:
            xs_ = list(full.solution)
            feas_ok = all(v >= -1e-6 for v in xs_) and all(sum(a * v for a, v in zip(A[i], xs_)) <= bw[i] + 1e-5 for i in range(m))
            ref = smod.solve_lp([float(v) for v in c], Ain, bw, minimize=minimize)
            agree = ref.status == Status.OPTIMAL and abs(ref.objective - full.objective) <= 1e-3 * (1 + abs(ref.objective))
            s.check(feas_ok and agree, "native:ip.full_run_optimal_is_feasible_and_matches_simplex",
                    detail={"ip": [str(full.status), full.objective], "simplex": [str(ref.status), ref.objective], "b": bw})
        s.goal("ip.native_full_run")


def _mats(m, n, vals):
    for flat in itertools.product(vals, repeat=m * n):
        yield [list(flat[i * n:(i + 1) * n]) for i in range(m)]


def items(tier, rng):
    out = []
    q = tier == "quick"
    cells = []
    small = (-1, 0, 1)
    wide = (-2, -1, 0, 1, 2)
    for (m, n) in [(1, 1), (1, 2), (2, 1), (2, 2)]:
        for A in _mats(m, n, small if q else wide):
            cells.append(A)
    extra = []
    for (m, n, k) in ([(2, 2, 60), (3, 2, 40), (2, 3, 40), (3, 3, 12)] if q else [(2, 2, 300), (3, 2, 160), (2, 3, 160), (3, 3, 40)]):
        for _ in range(k):
            extra.append([[rng.choice(wide) for _ in range(n)] for _ in range(m)])
    cgrid = (-1, 0, 1, 2)
    bgrid = (-2, -1, 0, 1, 3)
    for A in cells + extra:
        m, n = len(A), len(A[0])
        cs = list(itertools.product(cgrid, repeat=n))
        bs = list(itertools.product(bgrid, repeat=m))
        kq = 2 if q else (len(cs) if n <= 2 else 8)
        for cvec in (rng.sample(cs, min(kq, len(cs)))):
            for minimize in (True, False):
                out.append({"name": "lp_b_%dx%d" % (m, n), "harness": "h_lp",
                            "params": {"A": A, "mode": "b", "fixed": list(cvec), "minimize": minimize}})
        kq = 2 if q else (len(bs) if m <= 2 else 8)
        for bvec in (rng.sample(bs, min(kq, len(bs)))):
            for minimize in (True, False):
                out.append({"name": "lp_c_%dx%d" % (m, n), "harness": "h_lp",
                            "params": {"A": A, "mode": "c", "fixed": list(bvec), "minimize": minimize}})
    # max_iter limits
    for A in rng.sample(cells + extra, 12 if q else 100):
        n = len(A[0])
        for mi in (0, 1, 2, 3):
            out.append({"name": "lp_maxiter", "harness": "h_lp",
                        "params": {"A": A, "mode": "b", "fixed": [rng.choice(cgrid) for _ in range(n)], "minimize": True, "max_iter": mi}})
    if not q:
        for A in list(_mats(2, 2, small)):
            out.append({"name": "lp_bc_2x2", "harness": "h_lp", "params": {"A": A, "mode": "bc", "fixed": None, "minimize": True},
                        "wall_s": 120, "query_timeout_ms": 20000})
    # interior point exits
    ipA = [[[1]], [[1, 1]], [[1], [1]], [[1, 2], [3, 1]], [[1, -1], [1, 1]], [[2, 1]], [[1, -2], [-1, -1]], [[-1, 0]], [[0, 3]], [[-3, 0], [-3, -2]]]
    for A in ipA:
        n = len(A[0])
        for cvec in ([1] * n, [-1] * n, [1, -2][:n]):
            for minimize in (True, False):
                out.append({"name": "ip_exit0", "harness": "h_ip", "params": {"A": A, "c": cvec, "minimize": minimize, "max_iter": 0}})
                out.append({"name": "ip_exit1", "harness": "h_ip", "params": {"A": A, "c": cvec, "minimize": minimize, "max_iter": 1},
                            "arith_solver": None, "query_timeout_ms": 20000})
    return out

"""C05 - Model.solve never returns an assignment that breaks an added constraint; INFEASIBLE only if none exists; back-ends agree.

The input is a program (CP model built through the public constructors/operators); z3 is the independent decision procedure for the
reference semantics of the same descriptor.  solution_limit is a symbolic Int.
"""

import importlib

import z3

from symx.core import AND, OR, NOT, SNum
from checks import cp_common as P

PROPERTY = "C05"
FILES = ["solvor/cp.py", "solvor/cp_encoder.py", "solvor/sat.py"]
FUNCTIONS = ["solvor.cp.Model.solve / _solve_dfs / _propagate* / _choose_solver", "solvor.cp.IntVar / Expr operators",
             "solvor.cp_encoder.SATEncoder.solve (incl. decode_sat_solution)", "solvor.sat.solve_sat (as called by the encoder)"]
BOUNDS = {
    "quick": "same program space as C06 quick (every linear shape of the operator grammar x ==/!= x 4 sampled instantiations, every global constraint, "
             "120 two-constraint programs, global+simple constraint pairs in both orders, 7 compound-expression shapes, degenerate globals (empty / singleton lists, zero durations), no_overlap over every ordered pair of 6 heterogeneous windows x 7 duration pairs, sums of 1..5 terms systematically, zero-weight-variable pairs); each program solved with solver in {auto, dfs, sat} on fresh models and once more on ONE shared model "
             "object (auto then sat then dfs); hints absent / in-domain / out-of-domain; solution_limit a symbolic Int in 1..4",
    "thorough": "C06 thorough program space",
}
OUTSIDE = "programs outside the sampled instantiations; larger domains; solution_limit > 4"
ASSUMPTIONS = ["an in-domain hint is a hard restriction (documented mechanism: domain cut / SAT assumption): INFEASIBLE is then judged against the "
               "solutions consistent with the hints; out-of-domain hints are ignored",
               "reference semantics as in C06 (cp_common.reference)"]
STUBS = []
GOALS = {"quick": ["solver.dfs", "solver.sat", "solver.auto", "infeasible", "multi", "hint.in", "hint.out", "shared_model"],
         "thorough": ["solver.dfs", "solver.sat", "infeasible", "multi"]}
OPTS = {"quick": {"path_wall": 20.0}, "thorough": {"path_wall": 30.0}}


def check_assignment(prog, zs, dom, phi, a):
    """None if assignment dict a (name->value) lists exactly the NAMED variables, each in its domain, and extends to an assignment of all
    variables that satisfies the reference formula (variables created without a name are left out of the dict by the library)."""
    unnamed = set(prog.get("unnamed", ()))
    named = [i for i in range(len(prog["vars"])) if i not in unnamed]
    names = ["x%d" % i for i in named]
    if not isinstance(a, dict):
        return "not a dict: %r" % (a,)
    if set(a.keys()) != set(names):
        return "keys %r != %r" % (sorted(a.keys()), names)
    for i, nm in zip(named, names):
        v = a[nm]
        if type(v) is not int or not (prog["vars"][i][0] <= v <= prog["vars"][i][1]):
            return "%s=%r outside its domain %r" % (nm, v, prog["vars"][i])
    sub = [(zs[i], z3.IntVal(a["x%d" % i])) for i in named]
    if not unnamed:
        ok = z3.simplify(z3.substitute(phi, *sub))
        if not z3.is_true(ok):
            return "constraint violated by %r" % (a,)
        return None
    sol = z3.Solver()
    sol.add(dom, phi, *[z == v for z, v in sub])
    if sol.check() != z3.sat:
        return "no value of the unnamed variables completes %r to a solution" % (a,)
    return None


def h_solve(s, programs, hint_mode):
    Status = importlib.import_module("solvor.types").Status
    pi = s.choice("program", len(programs))
    prog = programs[pi]
    s.observe("program", {"vars": prog["vars"], "cons": [list(c) for c in prog["cons"]], "unnamed": list(prog.get("unnamed", ()))})
    limit = s.int("solution_limit", 1, 4)
    zs, dom, phi = P.reference(prog)
    sols = P.solutions_of(prog)
    hints = None
    if hint_mode == "in" and prog["vars"]:
        hints = {"x0": prog["vars"][0][0]}
        s.goal("hint.in")
    elif hint_mode == "out" and prog["vars"]:
        hints = {"x0": prog["vars"][0][1] + 5, "nosuch": 1}
        s.goal("hint.out")
    # hints guide the search (docstring): they are not constraints, so INFEASIBLE is only right when the model has no solution at all
    consistent = sols
    verdicts = {}
    shared = None
    for solver in ("auto", "dfs", "sat", "shared:auto", "shared:sat", "shared:dfs"):
        try:
            if solver.startswith("shared:"):
                if shared is None:
                    shared, _xs = P.build_model(prog)
                    s.goal("shared_model")
                m = shared
                sv = solver.split(":")[1]
            else:
                m, _xs = P.build_model(prog)
                sv = solver
        except (TypeError, ValueError):
            s.goal("api_rejected")
            return
        res = m.solve(solver=sv, solution_limit=limit, hints=dict(hints) if hints else None)
        tag = solver
        s.goal("solver." + sv)
        st = res.status
        verdicts[solver] = (st == Status.INFEASIBLE)
        if st == Status.INFEASIBLE:
            s.check(len(consistent) == 0 and res.solution is None, tag + ".infeasible_only_if_no_assignment_exists",
                    detail={"example_solution": list(consistent[0]) if consistent else None})
            s.goal("infeasible")
            continue
        s.check(st == Status.OPTIMAL, tag + ".status_known", detail=str(st))
        if st != Status.OPTIMAL:
            continue
        lst = [("solution", res.solution)]
        if res.solutions is not None:
            lst += [("solutions[%d]" % i, a) for i, a in enumerate(res.solutions)]
            if len(res.solutions) > 1:
                s.goal("multi")
        for nm, a in lst:
            why = check_assignment(prog, zs, dom, phi, a)
            s.check(why is None, tag + ".assignment_in_domain_and_satisfies_every_constraint", detail={"which": nm, "why": why})
            if hints and hint_mode == "in" and why is None and a["x0"] == hints["x0"]:
                s.goal("hint.followed")  # (coverage only: the property does not promise that a hint is honoured)
        if res.solutions is not None:
            s.check(len(res.solutions) <= limit, tag + ".no_more_solutions_than_requested")
    s.check(len(set(verdicts.values())) <= 1, "back_ends_agree_on_satisfiability", detail={k: ("INFEASIBLE" if v else "has solution") for k, v in verdicts.items()})
    s.observe("verdicts", {k: bool(v) for k, v in verdicts.items()})


def items(tier, rng):
    q = tier == "quick"
    progs = P.linear_programs(rng, 4 if q else 40) + P.global_programs(rng, 8 if q else 120, big=not q) + P.pair_programs(rng, 120 if q else 3000) + P.mixed_pair_programs(rng, 60 if q else 600) + P.zero_weight_programs() + P.sum_programs() + P.pinned_programs() + P.unnamed_programs()
    out = []
    for ch in P.chunks(progs, 6):
        out.append({"name": "solve", "harness": "h_solve", "params": {"programs": ch, "hint_mode": "none"}})
    for ch in P.chunks(rng.sample(progs, min(len(progs), 90 if q else 1200)), 6):
        out.append({"name": "solve_hint_in", "harness": "h_solve", "params": {"programs": ch, "hint_mode": "in"}})
    for ch in P.chunks(rng.sample(progs, min(len(progs), 60 if q else 600)), 6):
        out.append({"name": "solve_hint_out", "harness": "h_solve", "params": {"programs": ch, "hint_mode": "out"}})
    return out


def params_from_json(p):
    return {"programs": [P.prog_from_json(x) for x in p["programs"]], "hint_mode": p["hint_mode"]}

"""C17 - cutting-stock plans of solve_cg / solve_bp meet every demand; OPTIMAL is minimal.

Roll width and piece sizes are structural (they drive DP indices); the DEMANDS are symbolic Ints (0..D): with the patterns concrete the master-LP
tableau body is concrete and only the right-hand side is affine in the demands. OPTIMAL is checked against the true minimum: z3 is asked for an
integer combination of the FULL (enumerated) pattern set that covers the demands with fewer rolls (fresh Int existentials).
For solve_bp the demand vector is concretised by solver-driven forking (weaker mode, stated); custom pricing over explicit column pools.
"""

import importlib
import itertools

from symx.core import AND, OR, NOT, IMPLIES, ITE, IFF, SNum, ssum, sym_float, sym_int

PROPERTY = "C17"
FILES = ["solvor/cg.py", "solvor/bp.py", "solvor/utils/pricing.py"]
FUNCTIONS = ["solvor.cg.solve_cg / _solve_cutting_stock / _solve_custom / _solve_master_lp (also as a unit)", "solvor.bp.solve_bp / _branch_and_price / _solve_node_lp / "
             "_solve_bounded_master_lp / _round_solution / _most_fractional / _build_solution", "solvor.utils.pricing.knapsack_pricing / simplex_phase"]
BOUNDS = {
    "quick": "solve_cg: roll widths 6..10 with 1-3 piece sizes (14 instances), demands symbolic Ints in 0..8, plus 6 instances with 4 piece types (demands 0..4); custom pricing over 6 explicit column pools; the restricted master LP alone on 60 seeded column sets for every demand vector in 0..6. "
             "early stop through on_progress (1st/2nd report) and tight limits (max_iter 0..2, max_nodes 1..2) on a subset of all of these. solve_bp: 5 instances with 2-3 piece types, every demand vector with entries 0..3 (solver-enumerated), plus custom pools",
    "thorough": "widths up to 12, demands 0..16 (cg) and 0..6 (bp), 40 instances",
}
OUTSIDE = "larger widths / more piece types / larger demands; non-integer sizes; float rounding inside the tableau (body entries are native doubles)"
ASSUMPTIONS = ["true minimum = minimum over non-negative integer combinations of ALL feasible patterns (enumerated from sizes and width)",
               "float() shadowed in solvor.cg / solvor.bp so that symbolic demands can enter the tableau; demands are bounded (unbounded Ints with ceil/ToInt terms time z3 out)"]
STUBS = ["solvor.cg.float, solvor.bp.float := symbolic float"]
GOALS = {"quick": ["master.optimal", "cg.optimal", "cg.feasible_not_optimal", "cg.custom", "bp.optimal", "bp.feasible_not_optimal", "bp.custom"], "thorough": ["cg.optimal", "bp.optimal"]}
OPTS = {"quick": {"qto": 15000, "path_wall": 60.0}, "thorough": {"qto": 30000, "path_wall": 120.0}}


def all_patterns(W, sizes):
    out = []

    def rec(i, left, acc):
        if i == len(sizes):
            if any(acc):
                out.append(tuple(acc))
            return
        for k in range(int(left // sizes[i]) + 1):
            rec(i + 1, left - k * sizes[i], acc + [k])

    rec(0, W, [])
    # maximal patterns suffice for covering
    maximal = [p for p in out if not any(q != p and all(a >= b for a, b in zip(q, p)) for q in out)]
    return maximal


def check_plan(s, tag, res, demands, pool, fits, Status):
    """Obligations shared by cg/bp. pool = all columns that may be used by a better plan (for the minimality oracle)."""
    st = res.status
    s.observe("status", int(st))
    sol = res.solution
    if st not in (Status.OPTIMAL, Status.FEASIBLE):
        s.goal(tag + ".unusable_status")
        return
    ok = isinstance(sol, dict) and all(isinstance(p, tuple) and len(p) == len(demands) for p in sol)
    s.check(ok, tag + ".plan_wellformed", detail=repr(sol))
    if not ok:
        return
    s.check(all(fits(p) for p in sol), tag + ".every_pattern_fits_the_roll", detail=repr(list(sol)))
    s.check(AND([cnt >= 0 for cnt in sol.values()] or [True]), tag + ".counts_nonnegative")
    s.check(AND([ssum(p[i] * cnt for p, cnt in sol.items()) >= demands[i] for i in range(len(demands))]), tag + ".usable_plan_meets_every_demand")
    diff = res.objective - ssum(sol.values())
    s.check(AND(diff <= 1e-6, -diff <= 1e-6), tag + ".objective_is_number_of_rolls")  # 1e-6: solve_bp reports a float LP value
    if st == Status.OPTIMAL:
        y = [s.fresh_int("y%d" % k) for k in range(len(pool))]
        cover = AND([yy >= 0 for yy in y] + [ssum(pool[k][i] * y[k] for k in range(len(pool))) >= demands[i] for i in range(len(demands))])
        s.check(IMPLIES(cover, ssum(y) >= res.objective), tag + ".optimal_is_the_true_minimum")
        s.goal(tag + ".optimal")
    else:
        s.goal(tag + ".feasible_not_optimal")
    s.observe("objective", res.objective)


def _stop_kw(stop):
    """on_progress callback that asks to stop at its `stop`-th call (progress_interval=1): the early exits of solve_cg / solve_bp."""
    if not stop:
        return {}
    seen = [0]

    def cb(progress):
        seen[0] += 1
        return seen[0] >= stop
    return {"on_progress": cb, "progress_interval": 1}


def h_cg(s, W, sizes, D, stop=0, limits=None, fixed=None):
    Status = importlib.import_module("solvor.types").Status
    mod = importlib.import_module("solvor.cg")
    if fixed is not None:  # concrete demand vector (wide rolls: the pricing DP has 100 * W cells, too many to run on symbolic duals)
        dem = [s.int("demand%d" % i, v, v) for i, v in enumerate(fixed)]
    else:
        dem = [s.int("demand%d" % i, 0, D) for i in range(len(sizes))]
    s.stub(mod, float=sym_float)
    res = mod.solve_cg(list(dem), roll_width=W, piece_sizes=list(sizes), **_stop_kw(stop), **(limits or {}))
    if limits:
        s.goal("limits.tight")
    if stop:
        s.goal("stop.requested")
    if res.status == Status.INFEASIBLE:
        # cutting stock with sizes <= W is always feasible: an INFEASIBLE answer must at least not be a usable status (it is not), record it
        s.goal("cg.reported_infeasible")
    check_plan(s, "cg", res, dem, all_patterns(W, sizes), lambda p: sum(a * b for a, b in zip(p, sizes)) <= W, Status)


def h_master(s, columns, D):
    """Unit obligation on the restricted master LP: for EVERY demand vector the returned x is feasible and its value is the LP optimum."""
    mod = importlib.import_module("solvor.cg")
    m = len(columns[0])
    dem = [s.int("demand%d" % i, 0, D) for i in range(m)]
    s.stub(mod, float=sym_float)
    x, duals, obj = mod._solve_master_lp([tuple(c) for c in columns], list(dem), 1e-9)
    coverable = all(any(c[i] > 0 for c in columns) for i in range(m))
    if not isinstance(obj, SNum) and obj == float("inf"):
        # infeasible master: some demanded piece has no column
        s.check(OR([AND(dem[i] > 0, not any(c[i] > 0 for c in columns)) for i in range(m)]), "master.infeasible_only_if_uncoverable")
        s.goal("master.infeasible")
        return
    tol = 1e-7
    s.check(AND([v >= -tol for v in x] + [ssum(columns[j][i] * x[j] for j in range(len(columns))) >= dem[i] - tol for i in range(m)]),
            "master.primal_feasible")
    d = obj - ssum(x)
    s.check(AND(d <= tol, -d <= tol), "master.objective_is_sum_of_x")
    y = [s.fresh_real("y%d" % j) for j in range(len(columns))]
    feas = AND([v >= 0 for v in y] + [ssum(columns[j][i] * y[j] for j in range(len(columns))) >= dem[i] for i in range(m)])
    s.check(IMPLIES(feas, ssum(y) >= obj - tol), "master.value_is_the_lp_optimum")
    s.goal("master.optimal")
    s.observe("obj", obj)


def make_pricing(pool):
    """Custom pricing: returns the column of a fixed finite pool with the most negative reduced cost 1 - dual.col."""
    def pricing(duals):
        best, best_rc = None, 0
        for col in pool:
            rc = 1 - ssum(d * c for d, c in zip(duals, col))
            if rc < best_rc:
                best, best_rc = col, rc
        return best, best_rc
    return pricing


def h_cg_custom(s, pool, initial, D, stop=0, limits=None):
    Status = importlib.import_module("solvor.types").Status
    mod = importlib.import_module("solvor.cg")
    m = len(pool[0])
    dem = [s.int("demand%d" % i, 0, D) for i in range(m)]
    s.stub(mod, float=sym_float)
    res = mod.solve_cg(list(dem), pricing_fn=make_pricing([tuple(c) for c in pool]), initial_columns=[list(c) for c in initial],
                       **_stop_kw(stop), **(limits or {}))
    if stop:
        s.goal("stop.requested")
    allowed = {tuple(c) for c in pool} | {tuple(c) for c in initial}
    check_plan(s, "cg", res, dem, sorted(allowed), lambda p: p in allowed, Status)
    s.goal("cg.custom")


def h_bp(s, W, sizes, D, fixed=None, stop=0, limits=None):
    Status = importlib.import_module("solvor.types").Status
    mod = importlib.import_module("solvor.bp")
    if fixed is not None:
        dem = [s.int("demand%d" % i, v, v) for i, v in enumerate(fixed)]
    else:
        dem = [s.concrete(s.int("demand%d" % i, 0, D)) for i in range(len(sizes))]
    res = mod.solve_bp(list(dem), roll_width=W, piece_sizes=list(sizes), **_stop_kw(stop), **(limits or {}))
    if limits:
        s.goal("limits.tight")
    if stop:
        s.goal("stop.requested")
    check_plan(s, "bp", res, dem, all_patterns(W, sizes), lambda p: sum(a * b for a, b in zip(p, sizes)) <= W, Status)


def h_bp_custom(s, pool, initial, D, stop=0, limits=None):
    Status = importlib.import_module("solvor.types").Status
    mod = importlib.import_module("solvor.bp")
    m = len(pool[0])
    dem = [s.concrete(s.int("demand%d" % i, 0, D)) for i in range(m)]
    res = mod.solve_bp(list(dem), pricing_fn=make_pricing([tuple(c) for c in pool]), initial_columns=[list(c) for c in initial], **_stop_kw(stop), **(limits or {}))
    allowed = {tuple(c) for c in pool} | {tuple(c) for c in initial}
    check_plan(s, "bp", res, dem, sorted(allowed), lambda p: p in allowed, Status)
    s.goal("bp.custom")


INST4 = [(7, [1, 3, 6, 4]), (11, [9, 4, 2, 6]), (10, [2, 3, 4, 5]), (8, [1, 2, 3, 5]), (9, [2, 3, 4, 7]), (10, [6, 3, 1, 4]), (12, [5, 4, 3, 2, 7])]
INST = [(10, [3, 4]), (9, [2, 3, 4]), (6, [2, 3]), (7, [2, 5]), (8, [3, 5]), (10, [4, 6]), (10, [3, 7]), (9, [4, 5]), (6, [1, 4]), (8, [3]), (7, [2, 3, 4]),
        (10, [2, 3, 5]), (9, [2, 7]), (10, [3, 4, 5])]
POOLS = [
    ([(1, 0), (0, 1), (1, 1), (2, 1)], [(1, 0), (0, 1)]),
    ([(1, 0, 0), (0, 1, 0), (0, 0, 1), (1, 1, 0), (0, 1, 1), (1, 1, 1)], [(1, 0, 0), (0, 1, 0), (0, 0, 1)]),
    ([(2, 0), (0, 2), (1, 1)], [(2, 0), (0, 2)]),
    ([(3, 0), (0, 1), (2, 1), (1, 2)], [(3, 0), (0, 1)]),
]


EXTRA_POOLS = [
    ([(1, 0, 0), (0, 1, 0), (0, 0, 1), (2, 2, 0), (3, 0, 2)], [(1, 0, 0), (0, 1, 0), (0, 0, 1)]),
    ([(2, 1), (1, 2), (1, 0), (0, 1), (3, 0)], [(1, 0), (0, 1)]),
]


def items(tier, rng):
    out = []
    q = tier == "quick"
    D = 8 if q else 16
    Db = 3 if q else 6
    inst = INST if q else INST + [(12, [3, 4, 5]), (12, [5, 7]), (11, [2, 3, 7]), (12, [4, 5, 6])]
    for (W, sizes) in inst:
        out.append({"name": "cg_%d_%s" % (W, "_".join(map(str, sizes))), "harness": "h_cg", "params": {"W": W, "sizes": sizes, "D": D},
                    "max_paths": 600, "spread": rng.randrange(1 << 30), "split": 4})
    # four and five piece types (degenerate column-generation steps start to occur here), smaller demand range
    for (W, sizes) in (INST4[:6] if q else INST4):
        out.append({"name": "cg4_%d_%s" % (W, "_".join(map(str, sizes))), "harness": "h_cg", "params": {"W": W, "sizes": sizes, "D": 4 if q else 6},
                    "max_paths": 800, "spread": rng.randrange(1 << 30), "split": 4})
    for (W, sizes) in ([inst[0], inst[2], inst[3], inst[1], inst[4]] if q else inst):
        for vec in itertools.product(range(Db + 1), repeat=len(sizes)):
            out.append({"name": "bp_%d_%s" % (W, "_".join(map(str, sizes))), "harness": "h_bp",
                        "params": {"W": W, "sizes": sizes, "D": Db, "fixed": list(vec)}})
    for pool, init in POOLS:
        out.append({"name": "cg_custom", "harness": "h_cg_custom", "params": {"pool": pool, "initial": init, "D": D}, "max_paths": 600, "spread": rng.randrange(1 << 30)})
        out.append({"name": "bp_custom", "harness": "h_bp_custom", "params": {"pool": pool, "initial": init, "D": Db}, "split": 2})
    # restricted master LP as a unit: seeded column sets (2-3 rows, 3-5 columns, entries 0..3), every demand vector
    for _ in range(60 if q else 600):
        m = rng.choice([2, 2, 3])
        cols = []
        while len(cols) < rng.randint(3, 5):
            c = tuple(rng.randint(0, 3) for _ in range(m))
            if any(c) and c not in cols:
                cols.append(c)
        out.append({"name": "master", "harness": "h_master", "params": {"columns": cols, "D": 6 if q else 10}, "max_paths": 400, "spread": rng.randrange(1 << 30)})
    # a progress callback that stops the run early (1st / 2nd report): whatever is returned then is still held to the same obligations
    for k, (W, sizes) in enumerate(inst[:6] + INST4[:3]):
        out.append({"name": "cg_stop", "harness": "h_cg", "params": {"W": W, "sizes": sizes, "D": 4, "stop": 1 + k % 2},
                    "max_paths": 400, "spread": rng.randrange(1 << 30)})
    for k, (W, sizes) in enumerate([inst[0], inst[1], inst[3], INST4[0]]):
        vecs = list(itertools.product(range(3), repeat=len(sizes)))
        for vec in (vecs if len(vecs) <= 27 else rng.sample(vecs, 27)):
            out.append({"name": "bp_stop", "harness": "h_bp", "params": {"W": W, "sizes": sizes, "D": 2, "fixed": list(vec), "stop": 1 + (sum(vec) + k) % 3}})
    for k, (pool, init) in enumerate(POOLS):
        out.append({"name": "cg_custom_stop", "harness": "h_cg_custom", "params": {"pool": pool, "initial": init, "D": 4, "stop": 1 + k % 2},
                    "max_paths": 400, "spread": rng.randrange(1 << 30)})
        out.append({"name": "bp_custom_stop", "harness": "h_bp_custom", "params": {"pool": pool, "initial": init, "D": 2, "stop": 1 + k % 2}, "split": 2})
    # iteration / node limits that run out before convergence: a limit-stopped answer must not be labelled OPTIMAL unless it is minimal
    for k, (W, sizes) in enumerate(inst[:5] + INST4[:3]):
        out.append({"name": "cg_limit", "harness": "h_cg", "params": {"W": W, "sizes": sizes, "D": 4, "limits": {"max_iter": k % 3}},
                    "max_paths": 400, "spread": rng.randrange(1 << 30)})
    for k, (W, sizes) in enumerate([inst[0], inst[1], inst[3], INST4[0]]):
        vecs = list(itertools.product(range(3), repeat=len(sizes)))
        for vec in (vecs if len(vecs) <= 27 else rng.sample(vecs, 27)):
            lim = [{"max_iter": 0}, {"max_iter": 1}, {"max_nodes": 1}, {"max_nodes": 2, "max_iter": 2}][(sum(vec) + k) % 4]
            out.append({"name": "bp_limit", "harness": "h_bp", "params": {"W": W, "sizes": sizes, "D": 2, "fixed": list(vec), "limits": lim}})
    for k, (pool, init) in enumerate(POOLS + EXTRA_POOLS):
        out.append({"name": "cg_custom_limit", "harness": "h_cg_custom", "params": {"pool": pool, "initial": init, "D": 4, "limits": {"max_iter": k % 3}},
                    "max_paths": 400, "spread": rng.randrange(1 << 30)})
        out.append({"name": "bp_custom_limit", "harness": "h_bp_custom", "split": 2,
                    "params": {"pool": pool, "initial": init, "D": 2, "limits": [{"max_iter": 0}, {"max_nodes": 1}, {"max_iter": 1, "max_nodes": 2}][k % 3]}})
    # wide rolls (width > 100, where the pricing routine's integer scaling changes regime) with exact-fill mixed patterns
    for (W, sizes) in [(120, [20, 50]), (130, [30, 50]), (150, [40, 70])]:
        vecs = [v for v in itertools.product(range(6), repeat=len(sizes)) if any(v)]
        for vec in rng.sample(vecs, min(len(vecs), 8 if q else 40)) + [tuple([5] * len(sizes))]:
            out.append({"name": "cg_wide", "harness": "h_cg", "params": {"W": W, "sizes": sizes, "D": 5, "fixed": list(vec)}, "max_paths": 50})
            # (solve_bp is not run on wide rolls: natively it needs 20 s and more per instance there)
    # a coarse gap_tol (0.1 / 0.25) on instances with a piece so small that 1/gap_tol copies fit in a roll: OPTIMAL still has to be the minimum
    for (W, sizes) in [(14, [1, 10]), (12, [1, 7]), (10, [1, 3, 6])]:
        vecs = list(itertools.product(range(4), repeat=len(sizes)))
        for k, vec in enumerate(vecs if len(vecs) <= 16 else rng.sample(vecs, 16)):
            out.append({"name": "bp_gap", "harness": "h_bp", "params": {"W": W, "sizes": sizes, "D": 3, "fixed": list(vec), "limits": {"gap_tol": (0.1, 0.25)[k % 2]}}})
    for pool, init in EXTRA_POOLS:
        out.append({"name": "cg_custom", "harness": "h_cg_custom", "params": {"pool": pool, "initial": init, "D": D}, "max_paths": 600, "spread": rng.randrange(1 << 30)})
    for it in out:
        if it.get("split") is None:
            it.pop("split", None)
    return out


KNOWN_CLASSES = {}


def params_from_json(p):
    p = dict(p)
    for k in ("pool", "initial"):
        if k in p:
            p[k] = [tuple(c) for c in p[k]]
    return p

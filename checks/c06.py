"""C06 - the CP->SAT encoding has exactly the models of the CP problem.

Per program the REAL encoder runs (SATEncoder.solve with solve_sat wrapped to capture the clause list actually handed over); the clause
list is then the object of z3 queries together with the reference semantics Phi(x) and the linking b[v,k] <=> (x_v = k):
 exactly-one, soundness (CNF & link & not Phi unsat: for ALL assignments incl. auxiliaries), completeness (every solution of Phi extends
 to a model of the CNF), decode.
"""

import importlib

import z3

from checks import cp_common as P

PROPERTY = "C06"
FILES = ["solvor/cp_encoder.py", "solvor/cp.py"]
FUNCTIONS = ["solvor.cp_encoder.SATEncoder.solve / _encode_vars / _encode_constraint / _encode_* (all kinds)", "decode_sat_solution (via solve)",
             "solvor.cp.Model / IntVar / Expr operators (program construction)"]
BOUNDS = {
    "quick": "programs = CP models over 3 variables (5 for sums) with domains drawn from {0..2,1..3,-1..1,0..1,{2},0..3}: every linear shape of "
             "the operator grammar (20 shapes x ==/!=) x 6 VERIF_SEED-sampled instantiations, all_different, sum_eq/le/ge with 0..5 terms (repeats "
             "allowed), circuit on 0..n-1 domains for n=1..5 and on arbitrary successor domains, no_overlap, cumulative incl. two instances with "
             ">10 simultaneously active start literals, 150 two-constraint programs and global+simple pairs in both orders; 7 compound-expression shapes (Expr +, -, * on either side), degenerate globals (empty / singleton lists, zero durations), no_overlap over every ordered pair of 6 heterogeneous windows x 7 duration pairs, sums of 1..5 terms systematically, zero-weight-variable pairs",
    "thorough": "40 instantiations per linear shape, 10x the global-constraint samples, 3000 two-constraint programs",
}
OUTSIDE = "programs outside the sampled instantiations (the grammar is covered shape-by-shape, instantiations are VERIF_SEED-sampled); larger domains"
ASSUMPTIONS = ["reference semantics written from the documentation of each constraint (cp_common.reference), independent of propagator and encoder",
               "this property has no numeric symbolic dimension: z3 decides, per program, formulas over ALL boolean assignments of the produced CNF"]
STUBS = ["solvor.cp_encoder.solve_sat := capture the clause list (and assumptions) and stop"]
GOALS = {"quick": ["kind.lin", "kind.sum", "kind.circuit", "kind.no_overlap", "kind.cumulative", "kind.alldiff", "unsat_program", "sat_program"],
         "thorough": ["kind.lin", "kind.circuit", "kind.cumulative"]}


class _Captured(BaseException):
    pass


def encode(prog):
    """Run the real encoder; returns (model, xs, clauses or None when the encoder short-circuits to INFEASIBLE)."""
    enc = importlib.import_module("solvor.cp_encoder")
    Status = importlib.import_module("solvor.types").Status
    m, xs = P.build_model(prog)
    cap = {}
    orig = enc.solve_sat

    def fake(clauses, **kw):
        cap["clauses"] = [list(c) for c in clauses]
        cap["kw"] = kw
        raise _Captured()

    enc.solve_sat = fake
    try:
        try:
            res = enc.SATEncoder(m).solve()
            cap["early"] = res.status
        except _Captured:
            pass
    finally:
        enc.solve_sat = orig
    return m, xs, cap


def h_encode(s, programs):
    Status = importlib.import_module("solvor.types").Status
    pi = s.choice("program", len(programs))
    prog = programs[pi]
    s.observe("program", {"vars": prog["vars"], "cons": [list(c) for c in prog["cons"]]})
    for c in prog["cons"]:
        s.goal("kind." + c[0])
    try:
        m, xs, cap = encode(prog)
    except (TypeError, ValueError) as e:
        # the public API rejected the program: not "added with Model.add", nothing to claim
        s.goal("api_rejected")
        return
    zs, dom, phi = P.reference(prog)
    sols = P.solutions_of(prog)
    s.goal("sat_program" if sols else "unsat_program")
    if "clauses" not in cap:
        s.check(cap.get("early") == Status.INFEASIBLE and not sols, "encoder_shortcut_infeasible_only_if_no_solution",
                detail={"status": str(cap.get("early")), "n_solutions": len(sols)})
        return
    clauses = cap["clauses"]
    nb = max([abs(l) for c in clauses for l in c] + [max(v.bool_vars.values()) for v in xs] + [1])
    B = [None] + [z3.Bool("b%d" % i) for i in range(1, nb + 1)]

    def zl(l):
        return B[l] if l > 0 else z3.Not(B[-l])

    cnf = [z3.Or([zl(l) for l in c]) if c else z3.BoolVal(False) for c in clauses]
    base = z3.Solver()
    base.add(*cnf)
    # 1. exactly one value literal per declared variable
    bad = None
    for i, v in enumerate(xs):
        lits = [B[v.bool_vars[k]] for k in sorted(v.bool_vars)]
        base.push()
        base.add(z3.Not(z3.PbEq([(l, 1) for l in lits], 1)))
        if base.check() != z3.unsat:
            bad = "x%d" % i
        base.pop()
        if bad:
            break
    s.check(bad is None, "each_variable_decodes_to_exactly_one_value", detail=bad)
    # 2. soundness: no model of the CNF decodes to an assignment violating Phi
    link = [B[v.bool_vars[k]] == (zs[i] == k) for i, v in enumerate(xs) for k in v.bool_vars]
    base.push()
    base.add(dom, *link)
    base.add(z3.Not(phi))
    r = base.check()
    wit = None
    if r == z3.sat:
        mm = base.model()
        wit = [mm.eval(z, model_completion=True).as_long() for z in zs]
    base.pop()
    s.check(r == z3.unsat, "nothing_extra:every_cnf_model_satisfies_the_cp_constraints", detail={"spurious_assignment": wit})
    # 3. completeness: every CP solution extends to a CNF model (auxiliaries never over-constrain)
    missing = None
    for sol in sols[:400]:
        assum = []
        for i, v in enumerate(xs):
            for k in v.bool_vars:
                assum.append(B[v.bool_vars[k]] if sol[i] == k else z3.Not(B[v.bool_vars[k]]))
        if base.check(*assum) != z3.sat:
            missing = list(sol)
            break
    s.check(missing is None, "nothing_missing:every_cp_solution_is_a_cnf_model", detail={"lost_solution": missing})
    # 4. satisfiable exactly when the CP model is
    s.check((base.check() == z3.sat) == bool(sols), "cnf_satisfiable_iff_cp_model_is")


def items(tier, rng):
    q = tier == "quick"
    progs = P.linear_programs(rng, 6 if q else 40) + P.global_programs(rng, 12 if q else 120, big=not q) + P.pair_programs(rng, 150 if q else 3000) + P.mixed_pair_programs(rng, 40 if q else 400) + P.zero_weight_programs() + P.sum_programs() + P.pinned_programs()
    out = []
    for ch in P.chunks(progs, 12):
        out.append({"name": "encode", "harness": "h_encode", "params": {"programs": ch}})
    return out


def params_from_json(p):
    return {"programs": [P.prog_from_json(x) for x in p["programs"]]}

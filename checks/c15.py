"""C15 - cut vertices, bridges, k-cores, PageRank, Louvain obey their definitions.

articulation/bridges/k-core: structural (edge presence symbolic Bools read through the neighbour callback; k of kcore(k) a symbolic Int);
oracle = definition by deletion.  PageRank: damping in (0,1) and tol > 0 are symbolic Reals, max_iter <= 3 (scores are polynomials in the
damping).  Louvain: resolution > 0 symbolic (every gain comparison is linear in it once the graph is concrete).
"""

import importlib
import itertools

from symx.core import AND, OR, NOT, IMPLIES, ITE, IFF, SNum, SBool, ssum, sabs
from symx.stubs import namer

PROPERTY = "C15"
FILES = ["solvor/articulation.py", "solvor/kcore.py", "solvor/pagerank.py", "solvor/community.py"]
FUNCTIONS = ["solvor.articulation.articulation_points", "solvor.articulation.bridges", "solvor.kcore.kcore_decomposition", "solvor.kcore.kcore",
             "solvor.pagerank.pagerank", "solvor.pagerank.pagerank_edges[python]", "solvor.community.louvain"]
BOUNDS = {
    "quick": "empty and one-node graphs for every function; articulation/bridges/kcore: every undirected graph on 4 nodes (64) under 3 node orders x 2 neighbour orders and on 5 nodes (1024) "
             "under 1 order, symmetric neighbour lists and lists where each edge is listed by one endpoint only, with self-loop / duplicate-neighbour / outside-neighbour variants on 4 nodes, kcore(k) "
             "for symbolic k; pagerank: every loop-free digraph on 3 nodes (64) + 8 named 3-4 node digraphs with self loops, duplicate links and "
             "dangling nodes, damping in (0,1) and tol>=1e-12 symbolic, max_iter 2; louvain: every graph on 4 nodes + 6 named 5-6 node graphs, resolution>0 symbolic",
    "thorough": "graphs on 5 nodes under 3 orders; pagerank max_iter 3 and all 512 digraphs on 3 nodes with self loops; louvain every graph on 5 nodes",
}
OUTSIDE = ("more PageRank iterations than the bound (polynomial degree); graphs beyond 5 nodes; float rounding")
ASSUMPTIONS = ["edges are sets: a duplicate neighbour is the same edge listed twice; self loops do not affect cut vertices, bridges or cores",
               "PageRank reference equation: p = (1-d)/n + d*(sum_u p_u*mult(u,v)/outdeg(u) + dangling_mass/n); OPTIMAL implies |p - PR(p)|_inf <= n*tol",
               "floats as exact reals; 1.0/n is the exact value of the double, so sum-to-one carries a 1e-9 slack"]
STUBS = []
GOALS = {"quick": ["ap.some", "bridge.some", "kcore.2plus", "kcore.k", "pr.optimal", "pr.maxiter", "pr.dangling", "louvain.merged", "louvain.split"],
         "thorough": ["ap.some", "bridge.some", "kcore.2plus", "pr.optimal", "louvain.merged"]}
OPTS = {"quick": {"qto": 20000, "path_wall": 40.0}, "thorough": {"qto": 30000, "path_wall": 90.0}}


def ncomp(nodes, edges):
    nodes = list(nodes)
    comp = {v: v for v in nodes}

    def f(x):
        while comp[x] != x:
            x = comp[x]
        return x

    for (u, v) in edges:
        if u in comp and v in comp:
            ru, rv = f(u), f(v)
            if ru != rv:
                comp[ru] = rv
    return len({f(x) for x in nodes})


def core_numbers(n, edges):
    adj = {v: set() for v in range(n)}
    for (u, v) in edges:
        if u != v:
            adj[u].add(v)
            adj[v].add(u)
    core = {}
    for v in range(n):
        best = 0
        for k in range(0, n + 1):
            alive = set(range(n))
            ch = True
            while ch:
                ch = False
                for x in list(alive):
                    if len(adj[x] & alive) < k:
                        alive.discard(x)
                        ch = True
            if v in alive:
                best = k
        core[v] = best
    return core


def h_struct(s, func, n, pot, order, rev=False, dup=False, labels=False, outside=0, asym=None):
    """pot: potential undirected edges (u,v) u<=v over range(n+outside)."""
    N = n + outside
    p = {e: s.bool("e%d_%d" % e) for e in pot}
    name = namer(labels, "n")
    inv = {name(u): u for u in range(N)}

    def neighbors(x):
        u = inv[x]
        lst = []
        for (a, b) in pot:
            # asym: each undirected edge is listed by ONE endpoint only ("low": the smaller label, "high": the larger, "mix": alternating)
            if asym is not None and a != b:
                lister = a if asym == "low" else (b if asym == "high" else (a if (a + b) % 2 else b))
                if u != lister:
                    continue
            if a == u:
                lst.append(((a, b), b))
            elif b == u:
                lst.append(((a, b), a))
        if rev:
            lst.reverse()
        for e, v in lst:
            if bool(p[e]):
                yield name(v)
                if dup:
                    yield name(v)

    nodes = [name(u) for u in order]
    if func == "ap":
        mod = importlib.import_module("solvor.articulation")
        res = mod.articulation_points(iter(nodes), neighbors)
    elif func == "bridges":
        mod = importlib.import_module("solvor.articulation")
        res = mod.bridges(iter(nodes), neighbors)
    elif func == "kcore":
        mod = importlib.import_module("solvor.kcore")
        res = mod.kcore_decomposition(iter(nodes), neighbors)
    else:
        mod = importlib.import_module("solvor.kcore")
        k = s.int("k", 0, n)
        res = mod.kcore(iter(nodes), neighbors, k)
    present = [e for e in pot if bool(p[e])]
    edges = [(u, v) for (u, v) in present if u < n and v < n and u != v]
    s.observe("edges", present)
    base = ncomp(range(n), edges)
    if func == "ap":
        want = {v for v in range(n) if ncomp([x for x in range(n) if x != v], [(a, b) for (a, b) in edges if v not in (a, b)]) > base}
        got = res.solution
        s.check(isinstance(got, set) and {inv.get(x, -1) for x in got} == want, "ap.exactly_the_cut_vertices",
                detail={"got": sorted(map(str, got)) if isinstance(got, set) else repr(got), "want": sorted(want)})
        s.check(res.objective == len(got), "ap.objective_is_count")
        if want:
            s.goal("ap.some")
    elif func == "bridges":
        want = {(a, b) for (a, b) in edges if ncomp(range(n), [e for e in edges if e != (a, b)]) > base}
        got = res.solution
        ok = isinstance(got, list) and all(isinstance(e, tuple) and len(e) == 2 for e in got)
        s.check(ok, "bridges.wellformed")
        if not ok:
            return
        gotn = [tuple(sorted((inv.get(a, -1), inv.get(b, -1)))) for (a, b) in got]
        s.check(set(gotn) == want and len(gotn) == len(set(gotn)), "bridges.exactly_the_cut_edges", detail={"got": gotn, "want": sorted(want)})
        s.check(all(a < b for (a, b) in got), "bridges.canonical_order", detail=repr(got))
        if want:
            s.goal("bridge.some")
    elif func == "kcore":
        want = core_numbers(n, edges)
        got = res.solution
        s.check(isinstance(got, dict) and {inv.get(a, -1): b for a, b in got.items()} == want, "kcore.core_numbers",
                detail={"got": repr(got), "want": want})
        s.check(res.objective == max(want.values(), default=0), "kcore.objective_is_max_core")
        if max(want.values(), default=0) >= 2:
            s.goal("kcore.2plus")
    else:
        want = core_numbers(n, edges)
        got = res.solution
        ok = isinstance(got, set) and all(x in inv for x in got)
        s.check(ok, "kcore_k.wellformed")
        if not ok:
            return
        gs = {inv[x] for x in got}
        s.check(AND([IFF(want[v] >= k, v in gs) for v in range(n)]), "kcore_k.core_number_at_least_k")
        s.goal("kcore.k")
        s.observe("got", sorted(gs))


def h_pagerank(s, n, arcs, max_iter, edges_variant=False):
    Status = importlib.import_module("solvor.types").Status
    mod = importlib.import_module("solvor.pagerank")
    d = s.real("damping", 0, 1, lo_strict=True, hi_strict=True)
    tol = s.real("tol", 1e-12, None)  # below ~1e-16 the native double 1.0/n (not 1/n) decides convergence: float-only paths
    # arcs whose head is >= n point outside the node set: the neighbour callback lists them, the graph does not contain them
    raw = {u: [v for (a, v) in arcs if a == u] for u in range(n)}
    adj = {u: [v for v in raw[u] if v < n] for u in range(n)}
    if edges_variant:
        res = mod.pagerank_edges(n, list(arcs), damping=d, max_iter=max_iter, tol=tol, backend="python")
    else:
        res = mod.pagerank(range(n), lambda u: raw[u], damping=d, max_iter=max_iter, tol=tol)
    sc = res.solution
    ok = isinstance(sc, dict) and set(sc.keys()) == set(range(n))
    s.check(ok, "pr.scores_for_every_node")
    if not ok:
        return
    eps = 1e-9
    s.check(AND([sc[v] >= 0 for v in range(n)]), "pr.scores_nonnegative")
    tot = ssum(sc[v] for v in range(n))
    if n > 0:  # no nodes, no scores: nothing to sum
        s.check(AND(tot <= 1 + eps, tot >= 1 - eps), "pr.scores_sum_to_one")
    outdeg = {u: len(adj[u]) for u in range(n)}
    dang = ssum(sc[u] for u in range(n) if outdeg[u] == 0)
    if any(outdeg[u] == 0 for u in range(n)):
        s.goal("pr.dangling")
    s.observe("status", int(res.status))
    if res.status == Status.OPTIMAL:
        conds = []
        for v in range(n):
            pr_v = (1 - d) / n + d * (ssum(sc[u] * (adj[u].count(v)) / outdeg[u] for u in range(n) if outdeg[u] and v in adj[u]) + dang / n)
            diff = pr_v - sc[v]
            conds.append(AND(diff <= n * tol + eps, -diff <= n * tol + eps))
        s.check(AND(conds), "pr.optimal_satisfies_pagerank_equation_within_n_tol")
        s.goal("pr.optimal")
    else:
        s.check(res.status == Status.MAX_ITER and res.iterations == max_iter, "pr.max_iter_status")
        s.goal("pr.maxiter")
    s.observe("iters", res.iterations)


def h_louvain(s, n, edges, order=None, labels=False):
    mod = importlib.import_module("solvor.community")
    gamma = s.real("resolution", 0, None, lo_strict=True)
    name = namer(labels, "n")
    inv = {name(u): u for u in range(n)}
    adj = {u: [] for u in range(n)}
    for (u, v) in edges:
        adj[u].append(v)
        if u != v:
            adj[v].append(u)
    nodes = [name(u) for u in (order or range(n))]
    res = mod.louvain(iter(nodes), lambda x: [name(v) for v in adj[inv[x]]], resolution=gamma)
    comms = res.solution
    ok = isinstance(comms, list) and all(isinstance(c, set) and c for c in comms)
    s.check(ok, "louvain.nonempty_sets", detail=repr(comms))
    if not ok:
        return
    cs = [sorted(inv.get(x, -1) for x in c) for c in comms]
    flat = sorted(x for c in cs for x in c)
    s.check(flat == list(range(n)), "louvain.partition_of_the_node_set", detail=cs)
    if flat != list(range(n)):
        return
    E = {tuple(sorted(e)) for e in edges if e[0] != e[1]}
    m = len(E)
    deg = {v: sum(1 for e in E if v in e) for v in range(n)}
    if m == 0:
        s.check(res.objective == 0, "louvain.modularity_of_edgeless_graph")
    else:
        q = 0
        for c in cs:
            ec = sum(1 for e in E if e[0] in c and e[1] in c)
            dc = sum(deg[v] for v in c)
            q = q + ec / m - gamma * (dc / (2 * m)) ** 2
        diff = res.objective - q
        s.check(AND(diff <= 1e-9, -diff <= 1e-9), "louvain.reported_modularity_is_modularity_of_partition")
    if any(len(c) > 1 for c in cs):
        s.goal("louvain.merged")
    if len(cs) > 1:
        s.goal("louvain.split")
    s.observe("comms", sorted(cs))


def und(n, loops=False):
    return [(u, v) for u in range(n) for v in range(u + (0 if loops else 1), n)]


NAMED_PR = {
    "selfloop3": (3, [(0, 0), (0, 1), (1, 2)]),
    "dup3": (3, [(0, 1), (0, 1), (0, 2), (2, 0)]),
    "alldangling3": (3, []),
    "star4": (4, [(1, 0), (2, 0), (3, 0)]),
    "cycle4": (4, [(0, 1), (1, 2), (2, 3), (3, 0)]),
    "sink4": (4, [(0, 1), (1, 2), (2, 1), (0, 3)]),
    "loops_only3": (3, [(0, 0), (1, 1), (2, 2)]),
    "two_comp4": (4, [(0, 1), (1, 0), (2, 3)]),
}
NAMED_PR_OUT = {
    "only_outside3": (3, [(0, 1), (1, 2), (2, 9)]),
    "only_outside_dup3": (3, [(0, 1), (1, 0), (2, 9), (2, 9), (2, 7)]),
    "mixed_outside3": (3, [(0, 1), (0, 9), (1, 2), (2, 0), (2, 9)]),
    "all_outside2": (2, [(0, 5), (1, 5)]),
    "outside_and_loop4": (4, [(0, 1), (1, 1), (1, 9), (2, 9), (3, 2), (3, 0)]),
}
NAMED_LV = {
    "barbell6": (6, [(0, 1), (1, 2), (0, 2), (3, 4), (4, 5), (3, 5), (2, 3)]),
    "path5": (5, [(0, 1), (1, 2), (2, 3), (3, 4)]),
    "star5": (5, [(0, 1), (0, 2), (0, 3), (0, 4)]),
    "k5": (5, [(u, v) for u in range(5) for v in range(u + 1, 5)]),
    "two_tri_dup": (6, [(0, 1), (1, 0), (1, 2), (0, 2), (3, 4), (4, 5), (3, 5), (5, 5)]),
    "cycle6": (6, [(0, 1), (1, 2), (2, 3), (3, 4), (4, 5), (5, 0)]),
}


def items(tier, rng):
    out = []
    q = tier == "quick"
    # empty and one-node graphs
    for func in ("ap", "bridges", "kcore", "kcore_k"):
        out.append({"name": func + "_0", "harness": "h_struct", "params": {"func": func, "n": 0, "pot": [], "order": []}})
        out.append({"name": func + "_1", "harness": "h_struct", "params": {"func": func, "n": 1, "pot": [(0, 0)], "order": [0]}})
    for n0 in (0, 1):
        out.append({"name": "pr_%d" % n0, "harness": "h_pagerank", "params": {"n": n0, "arcs": [(0, 0)] if n0 else [], "max_iter": 3}})
        out.append({"name": "lv_%d" % n0, "harness": "h_louvain", "params": {"n": n0, "edges": []}})
    for func in ("ap", "bridges", "kcore", "kcore_k"):
        orders4 = [[0, 1, 2, 3], [2, 0, 3, 1], [3, 2, 1, 0]]
        for order in orders4:
            for rev in (False, True):
                out.append({"name": "%s_4" % func, "harness": "h_struct",
                            "params": {"func": func, "n": 4, "pot": und(4), "order": order, "rev": rev, "labels": ("str" if (rev or func == "bridges") else "opaque") if order[0] == 2 else False}})  # bridges documents (u, v) with u < v: orderable labels only
        out.append({"name": "%s_4loops" % func, "harness": "h_struct", "split": 5,
                    "params": {"func": func, "n": 4, "pot": und(4, True), "order": [1, 3, 0, 2]}})
        if True:
            # asymmetric neighbour lists are valid input (the property's quantifier names them): an edge listed by one endpoint only
            for asym in ("low", "high", "mix"):
                for order in ([0, 1, 2, 3], [3, 1, 0, 2]):
                    out.append({"name": "%s_4asym" % func, "harness": "h_struct",
                                "params": {"func": func, "n": 4, "pot": und(4), "order": order, "asym": asym}})
        out.append({"name": "%s_4dup" % func, "harness": "h_struct", "params": {"func": func, "n": 4, "pot": und(4), "order": [0, 1, 2, 3], "dup": True}})
        out.append({"name": "%s_3out" % func, "harness": "h_struct",
                    "params": {"func": func, "n": 3, "pot": und(3) + [(0, 3), (2, 3)], "order": [0, 1, 2], "outside": 1}})
        orders5 = [[0, 1, 2, 3, 4]] if q else [[0, 1, 2, 3, 4], [4, 2, 0, 3, 1], [3, 4, 1, 0, 2]]
        if func != "kcore_k" or not q:
            for order in orders5:
                out.append({"name": "%s_5" % func, "harness": "h_struct", "split": 7,
                            "params": {"func": func, "n": 5, "pot": und(5), "order": order, "rev": order[0] == 4}})
    # pagerank
    mi = 2 if q else 3
    K3 = [(u, v) for u in range(3) for v in range(3) if u != v]
    K3L = [(u, v) for u in range(3) for v in range(3)]
    pool = K3 if q else K3L
    for k in range(len(pool) + 1):
        for sub in itertools.combinations(pool, k):
            out.append({"name": "pr3", "harness": "h_pagerank", "params": {"n": 3, "arcs": list(sub), "max_iter": mi}})
    # outside-neighbour variants (callback form only): a node whose whole list lies outside the node set is dangling, a mixed list
    # spreads over the inside part only
    for nm, (n, arcs) in NAMED_PR_OUT.items():
        out.append({"name": "pr_" + nm, "harness": "h_pagerank", "params": {"n": n, "arcs": arcs, "max_iter": mi}})
    for nm, (n, arcs) in NAMED_PR.items():
        out.append({"name": "pr_" + nm, "harness": "h_pagerank", "params": {"n": n, "arcs": arcs, "max_iter": mi}})
        out.append({"name": "pr1_" + nm, "harness": "h_pagerank", "params": {"n": n, "arcs": arcs, "max_iter": 1, "edges_variant": True}})
    # louvain
    for k in range(0, 7):
        for sub in itertools.combinations(und(4), k):
            out.append({"name": "lv4", "harness": "h_louvain", "params": {"n": 4, "edges": list(sub), "order": [0, 1, 2, 3] if k % 2 else [2, 0, 3, 1]}})
    for nm, (n, edges) in NAMED_LV.items():
        out.append({"name": "lv_" + nm, "harness": "h_louvain", "params": {"n": n, "edges": edges, "labels": "str" if nm in ("path5", "cycle6") else False}})  # louvain compares labels with <: orderable labels only
    if not q:
        for k in range(0, 11):
            for sub in itertools.combinations(und(5), k):
                out.append({"name": "lv5", "harness": "h_louvain", "params": {"n": 5, "edges": list(sub)}})
    return out


def params_from_json(p):
    p = dict(p)
    for k in ("pot", "arcs", "edges"):
        if k in p:
            p[k] = [tuple(a) for a in p[k]]
    return p

"""C04 - MILP answers are integer-feasible; OPTIMAL means no integer-feasible point is better; INFEASIBLE means none exists.

A (small integers) and c are structural; the right-hand side b is a vector of symbolic Ints (wide range) - with A concrete every node LP
stays linear in b; floor/ceil/round on LP values become ToInt terms. Instances carry box rows x_j <= U so that the integer points of the box
are an explicit finite set P: OPTIMAL is checked against every p in P (continuous coordinates get fresh existential Reals).
"""

import importlib
import random
import itertools
from fractions import Fraction

from symx.core import AND, OR, NOT, IMPLIES, ITE, IFF, SNum, ssum, sym_float, sabs
from symx.stubs import sym_array, SymRandom

PROPERTY = "C04"
FILES = ["solvor/milp.py", "solvor/simplex.py", "solvor/lns.py"]
FUNCTIONS = ["solvor.milp.solve_milp", "solvor.milp._solve_node", "solvor.milp._most_fractional", "solvor.milp._detect_binary", "solvor.milp._round_binary",
             "solvor.milp._is_feasible", "solvor.milp._lns_improve / _solve_sub_mip", "solvor.simplex.solve_lp (as called per node)"]
BOUNDS = {
    "quick": "n=2 variables (all-integer and mixed), n=3 binary-style, and n=3 mixed (two integer, one continuous, per-variable upper bounds 1 or 3), constraint rows from {-1,0,1,2} (1-2 general rows, VERIF_SEED-sampled) plus box "
             "rows x_j <= U (U=3, or 1 for the binary family), c from {-2..3}, minimize/maximize; b of the general rows symbolic Ints in -20..20; options: "
             "heuristics on/off, warm start absent / concrete / symbolic values / wrong length, lns_iterations 0/1, solution_limit 1/2; added families: knapsack-shaped all-binary cells, two-variable binary cells with coefficients -3..5, bound-row patterns whose relaxation can look binary, named anchor cells in every placement of the variable roles, cells that branch (rejection-sampled natively) with symbolic warm-start vectors, tight max_nodes (1..3) and a symbolic simplex pivot budget max_iter in 0..8",
    "thorough": "more sampled (A,c) cells (x8), U=4, 3 general rows",
}
OUTSIDE = "unbounded integer boxes; more than 3 variables; float rounding; max_nodes is set to 500 (never reached on the unchanged tree; bounds runaway branching), max_iter default"
ASSUMPTIONS = ["floats as exact reals; array('d') shim in solvor.simplex; Random replaced by a symbolic stream in solvor.milp (LNS)",
               "tolerance 1e-5 on feasibility / integrality / objective (eps=1e-6 guards executed exactly)",
               "warm starts: concrete vectors (feasibility depends on the symbolic b) and vectors of symbolic Reals in -3..4 (any value, incl. negative / fractional)"]
STUBS = ["solvor.simplex.array := list shim", "solvor.milp.Random := SymRandom", "solvor.milp.float := symbolic float"]
GOALS = {"quick": ["milp.node_limit_hit", "milp.optimal", "milp.infeasible", "milp.branching", "milp.mixed", "milp.binary", "milp.warm_start", "milp.solution_pool"],
         "thorough": ["milp.optimal", "milp.infeasible", "milp.branching"]}
OPTS = {"quick": {"qto": 8000, "path_wall": 20.0, "arith_solver": 2}, "thorough": {"qto": 30000, "path_wall": 120.0, "arith_solver": 2}}
TOL = Fraction(1, 10 ** 5)


def K(v):
    return SNum.const(Fraction(v), isint=False)


def dot(a, b):
    return ssum(x * y for x, y in zip(a, b))


def h_milp(s, rows, c, U, integers, minimize, heuristics=True, warm=None, lns=0, solution_limit=1, b_fixed=None, max_nodes=500, lp_budget=False, gap_tol=None):
    Status = importlib.import_module("solvor.types").Status
    mod = importlib.import_module("solvor.milp")
    smod = importlib.import_module("solvor.simplex")
    n = len(c)
    sym = s.symbolic
    # b_fixed: concrete right-hand side (used with symbolic warm starts: the tree is then small enough to be exhausted)
    b_gen = list(b_fixed) if b_fixed is not None else [s.int("b%d" % i, -20, 20) for i in range(len(rows))]
    Us = list(U) if isinstance(U, (list, tuple)) else [U] * n
    A = [list(r) for r in rows] + [[1 if k == j else 0 for k in range(n)] for j in range(n)]
    b = list(b_gen) + Us
    Ain = [[K(v) if sym else float(v) for v in row] for row in A]
    bin_ = [(x * 1.0 if isinstance(x, SNum) else float(x)) for x in b]
    cin = [K(v) if sym else float(v) for v in c]
    s.stub(smod, array=sym_array)
    s.stub(mod, float=sym_float)
    s.patch(mod, Random=SymRandom(s))
    kw = {"heuristics": heuristics, "lns_iterations": lns, "solution_limit": solution_limit, "max_nodes": max_nodes}
    if gap_tol is not None:
        kw["gap_tol"] = gap_tol  # OPTIMAL then means "no integer-feasible point is better by more than gap_tol * |objective|" (absolute near 0)
    if lp_budget:
        kw["max_iter"] = s.int("lp_max_iter", 0, 8)  # simplex pivot budget per node LP: a node that runs out of it proves nothing
    if warm is not None:
        if warm == "symbolic":
            # warm-start VALUES are symbolic Reals (the length is structural): feasibility of the incumbent is decided by the solver
            kw["warm_start"] = [s.real("warm%d" % j, -3, 4) for j in range(n)]
        else:
            kw["warm_start"] = [float(v) for v in warm]
        s.goal("milp.warm_start")
    res = mod.solve_milp(cin, Ain, bin_, list(integers), minimize=minimize, seed=1, **kw)
    st = res.status
    # with a tight node / pivot limit the outcome depends on which node is explored first, and exact ties in "most fractional" (1/3 vs 2/3)
    # are broken by float rounding natively: such runs are held to the obligations but not compared value-by-value with the native run
    limited = max_nodes < 500 or lp_budget or solution_limit > 1 or gap_tol is not None  # (pool: how many solutions are met before the tree is exhausted hangs on pruning ties)
    if not limited:
        s.observe("status", int(st))
    else:
        s.observe("ran", 1)
    sign = 1 if minimize else -1
    cont = [j for j in range(n) if j not in integers]
    if cont:
        s.goal("milp.mixed")
    if all(u == 1 for u in Us):
        s.goal("milp.binary")
    # every integer point of the box, continuous coordinates as fresh reals
    pts = list(itertools.product(*[range(Us[j] + 1) for j in integers]))

    def full(p, tag):
        x = [None] * n
        for j, v in zip(integers, p):
            x[j] = v
        fresh = []
        for j in cont:
            y = s.fresh_real("%s_y%d" % (tag, j))
            x[j] = y
            fresh.append(y)
        feas = AND([dot(A[i], x) <= b[i] for i in range(len(A))] + [y >= 0 for y in fresh])
        return x, feas

    def sol_ok(x, tag):
        conds = [xx >= -TOL for xx in x] + [dot(A[i], x) <= b[i] + TOL for i in range(len(A))]
        for j in integers:
            d = x[j] - (x[j] + Fraction(1, 2)).__floor__() if isinstance(x[j], SNum) else x[j] - round(x[j])
            conds.append(AND(d <= TOL, -d <= TOL))
        return AND(conds)

    if st == Status.INFEASIBLE:
        s.check(res.solution is None, "milp.infeasible_has_no_solution")
        s.check(AND([NOT(full(p, "i%d" % k)[1]) for k, p in enumerate(pts)]), "milp.infeasible_only_if_no_integer_feasible_point")
        s.goal("milp.infeasible")
        return
    if st == Status.UNBOUNDED:
        s.check(False, "milp.unbounded_on_a_bounded_box")
        return
    if st == Status.MAX_ITER:
        # "the node limit stopped the search before anything was found": only with a tight limit, and then no solution is presented
        s.check((max_nodes < 500 or lp_budget) and res.solution is None, "milp.max_iter_only_when_a_limit_is_tight_and_without_solution", detail=max_nodes)
        s.goal("milp.node_limit_hit")
        return
    s.check(st in (Status.OPTIMAL, Status.FEASIBLE) and res.solution is not None and len(res.solution) == n, "milp.status_known", detail=str(st))
    if res.solution is None:
        return
    x = list(res.solution)
    s.check(sol_ok(x, "sol"), "milp.solution_feasible_and_integral")
    cx = dot(c, x)
    s.check(AND(res.objective - cx <= TOL, cx - res.objective <= TOL), "milp.objective_is_c_dot_x")
    if res.solutions is not None:
        s.check(AND([sol_ok(list(z), "pool") for z in res.solutions]), "milp.every_pool_solution_feasible_and_integral")
        s.goal("milp.solution_pool")
    if st == Status.OPTIMAL:
        conds = []
        slack = 0
        if gap_tol is not None:
            mag = sabs(res.objective)
            slack = ITE(mag < Fraction(1, 10 ** 10), gap_tol, gap_tol * mag) if isinstance(mag, SNum) else (gap_tol if mag < 1e-10 else gap_tol * mag)
        for k, p in enumerate(pts):
            xp, feas = full(p, "o%d" % k)
            conds.append(IMPLIES(feas, sign * dot(c, xp) >= sign * res.objective - 10 * TOL - slack))
        s.check(AND(conds), "milp.optimal_means_no_integer_feasible_point_is_better")
        s.goal("milp.optimal")
    if res.iterations > 1:
        s.goal("milp.branching")
    if not limited:
        s.observe("objective", res.objective)
        s.observe("x_len", len(x))


def branching_cells(rng, want):
    """Concrete mixed cells on which the root relaxation is fractional, so that solve_milp really branches and a warm start becomes the
    incumbent (with an integral root it returns before looking at it). Found by rejection sampling with a native run; the selection only
    steers the generator - every verdict on the selected cells is still an obligation on the symbolic run."""
    mod = importlib.import_module("solvor.milp")
    out, tries = [], 0
    while len(out) < want and tries < 4000:
        tries += 1
        n = rng.choice([2, 3])
        rows = [[rng.choice((-2, -1, 1, 2, 3)) for _ in range(n)] for _ in range(rng.choice([1, 2]))]
        c = [rng.randint(-3, 3) for _ in range(n)]
        ints = sorted(rng.sample(range(n), n - 1))
        U = [rng.choice([1, 2, 3]) for _ in range(n)]
        bf = [rng.randint(1, 7) for _ in rows]
        mn = rng.random() < 0.5
        A = [[float(v) for v in r] for r in rows] + [[1.0 if k == j else 0.0 for k in range(n)] for j in range(n)]
        try:
            r = mod.solve_milp([float(v) for v in c], A, [float(v) for v in bf] + [float(u) for u in U], ints, minimize=mn, max_nodes=200)
        except Exception:  # noqa: BLE001
            continue
        if r.iterations > 1 and r.solution is not None:
            out.append({"rows": rows, "c": c, "U": U, "integers": ints, "minimize": mn, "b_fixed": bf})
    return out


def binary_looking_cells(rng, want):
    smod = importlib.import_module("solvor.simplex")
    Status = importlib.import_module("solvor.types").Status
    out, tries = [], 0
    while len(out) < want and tries < 6000:
        tries += 1
        k = len(out)
        cont = k % 3
        ints = [j for j in range(3) if j != cont]
        wide = ints[(k // 3) % 2]
        U = [1, 1, 1]
        U[wide] = 2 + (k // 6) % 2
        rows = [[rng.choice((-2, -1, 0, 1, 2)) for _ in range(3)] for _ in range(2)]
        c = [rng.randint(-3, 3) for _ in range(3)]
        A = [[float(v) for v in r] for r in rows] + [[1.0 if kk == j else 0.0 for kk in range(3)] for j in range(3)]
        ok = False
        for _ in range(25):
            bf = [rng.randint(-4, 4) for _ in rows]
            mn = rng.random() < 0.5
            try:
                r = smod.solve_lp([float(v) for v in c], A, [float(v) for v in bf] + [float(u) for u in U], minimize=mn)
            except Exception:  # noqa: BLE001
                continue
            if r.status == Status.OPTIMAL and all(-1e-9 <= r.solution[j] <= 1 + 1e-9 for j in ints) and \
                    any(abs(r.solution[j] - round(r.solution[j])) > 1e-6 for j in ints):
                ok = True
                break
        if ok:
            out.append((rows, c, U, ints))
    return out


def items(tier, rng):
    out = []
    q = tier == "quick"
    vals = (-1, 0, 1, 2)
    cells = []
    for _ in range(26 if q else 200):
        n = 2
        rows = [[rng.choice(vals) for _ in range(n)] for _ in range(rng.choice([1, 2]) if q else rng.choice([1, 2, 3]))]
        c = [rng.randint(-2, 3) for _ in range(n)]
        cells.append((rows, c, 3 if q else rng.choice([3, 4]), [0, 1]))
    for _ in range(8 if q else 60):
        rows = [[rng.choice(vals) for _ in range(2)] for _ in range(rng.choice([1, 2]))]
        c = [rng.randint(-2, 3) for _ in range(2)]
        cells.append((rows, c, 3, [rng.choice([0, 1])]))  # mixed
    for _ in range(8 if q else 60):
        rows = [[rng.choice((0, 1, 2, 3)) for _ in range(3)] for _ in range(rng.choice([1, 2]))]
        c = [rng.randint(-3, 3) for _ in range(3)]
        cells.append((rows, c, 1, [0, 1, 2]))  # binary-style knapsack rows
    for _ in range(12 if q else 120):
        # knapsack-shaped all-binary cells (positive weights and profits): the rounding heuristic's flip and swap phases have work to do
        nv = rng.choice([3, 3, 4])
        rows = [[rng.choice((1, 2, 3)) for _ in range(nv)] for _ in range(rng.choice([1, 2]))]
        c = [rng.choice((1, 2, 3, 4)) for _ in range(nv)]
        cells.append((rows, c, 1, list(range(nv))))
    for _ in range(32 if q else 200):
        # two binary variables, one or two general rows with a wider coefficient range: small trees that reach fully fixed leaves
        rows = [[rng.choice((-3, -2, -1, 1, 2, 3, 4, 5)) for _ in range(2)] for _ in range(rng.choice([1, 1, 2]))]
        c = [rng.choice((-4, -3, -2, -1, 1, 2, 3, 4)) for _ in range(2)]
        cells.append((rows, c, 1, [0, 1]))
    for _ in range(16 if q else 120):
        # three variables, two of them integer, explicit x_j <= 1 rows on SOME variables only (integer or continuous)
        rows = [[rng.choice((-2, -1, 0, 1, 2)) for _ in range(3)] for _ in range(2)]
        c = [rng.randint(-2, 3) for _ in range(3)]
        ints = sorted(rng.sample(range(3), 2))
        cells.append((rows, c, [rng.choice([1, 1, 3]) for _ in range(3)], ints))
    # bound-row patterns: one integer variable with x <= 1, the other integer variable wide, the continuous one with x <= 1 (every placement):
    # "all integer variables carry an explicit x_j <= 1 row" must not be confused with "as many x_j <= 1 rows as integer variables".
    # Rows/costs are kept only if SOME right-hand side gives a fractional root relaxation with all integer variables in [0,1] (the situation
    # in which the solver considers clamping); the right-hand side itself stays symbolic.
    cells += binary_looking_cells(random.Random(rng.randrange(1 << 30)), 30 if q else 240)
    # named cells: structures on which a wrong binary detection / leaf test / incumbent test is known to matter (right-hand sides stay
    # symbolic), in every placement of the variable roles - a deterministic anchor next to the seeded families
    base_named = [([[-2, 1, -1], [-2, -2, 0]], [3, -1, 2], [1, 3, 1], [0, 1]),      # narrow int, wide int, bounded continuous
                  ([[5, -2]], [-2, 1], 1, [0, 1]), ([[-1, 2], [3, -2]], [4, 4], 1, [0, 1]),   # all-binary, leaf with a tight row
                  ([[-2, -1]], [1, 2], 3, [0]), ([[2, 2]], [1, 1], 3, [0, 1])]            # mixed with a free continuous variable; fractional root
    for (rows, c, U, ints) in base_named:
        n = len(c)
        for perm in (itertools.permutations(range(n)) if n == 3 else [tuple(range(n)), tuple(reversed(range(n)))]):
            pr = [[r[perm[j]] for j in range(n)] for r in rows]
            pc = [c[perm[j]] for j in range(n)]
            pU = [U[perm[j]] for j in range(n)] if isinstance(U, list) else U
            pints = sorted(j for j in range(n) if perm[j] in ints)
            cells.append((pr, pc, pU, pints))
    for ci, (rows, c, U, ints) in enumerate(cells):
        for minimize in ((True, False) if ci % 2 == 0 else (rng.random() < 0.5,)):
            base = {"rows": rows, "c": c, "U": U, "integers": ints, "minimize": minimize}
            out.append({"name": "milp_%d" % len(c), "harness": "h_milp", "params": dict(base), "max_paths": 400, "spread": rng.randrange(1 << 30)})
            if ci % 3 == 0:
                out.append({"name": "milp_noheur", "harness": "h_milp", "params": dict(base, heuristics=False), "max_paths": 400, "spread": rng.randrange(1 << 30)})
            if ci % 4 == 1:
                out.append({"name": "milp_pool", "harness": "h_milp", "params": dict(base, solution_limit=2), "max_paths": 400, "spread": rng.randrange(1 << 30)})
            if ci % 3 == 1:
                out.append({"name": "milp_warm_sym", "harness": "h_milp", "params": dict(base, warm="symbolic"), "max_paths": 250, "spread": rng.randrange(1 << 30)})
            if ci % 4 == 2:
                w = [rng.randint(0, (U[k] if isinstance(U, list) else U)) for k in range(len(c))]
                out.append({"name": "milp_warm", "harness": "h_milp", "params": dict(base, warm=w), "max_paths": 400, "spread": rng.randrange(1 << 30)})
                out.append({"name": "milp_warm_badlen", "harness": "h_milp", "params": dict(base, warm=w + [0]), "max_paths": 400, "spread": rng.randrange(1 << 30)})
            if U == 1 and ci % 2 == 0:  # all-binary family
                out.append({"name": "milp_lns", "harness": "h_milp", "params": dict(base, lns=1), "max_paths": 80, "spread": rng.randrange(1 << 30)})
    # node limits that run out while the tree is still open: the same obligations hold (OPTIMAL only if optimal, INFEASIBLE only if no
    # integer-feasible point exists)
    for k, cell in enumerate(branching_cells(random.Random(rng.randrange(1 << 30)), 12 if q else 120)):
        cell = dict(cell)
        cell.pop("b_fixed")
        out.append({"name": "milp_node_limit", "harness": "h_milp", "max_paths": 300, "spread": rng.randrange(1 << 30),
                    "params": dict(cell, max_nodes=1 + k % 3, heuristics=(k % 2 == 0))})
    for k, cell in enumerate(branching_cells(random.Random(rng.randrange(1 << 30)), 10 if q else 100)):
        cell = dict(cell)
        cell.pop("b_fixed")
        out.append({"name": "milp_lp_budget", "harness": "h_milp", "max_paths": 300, "spread": rng.randrange(1 << 30),
                    "params": dict(cell, lp_budget=True, heuristics=(k % 2 == 0))})
    for k, cell in enumerate(branching_cells(random.Random(rng.randrange(1 << 30)), 10 if q else 100)):
        cell = dict(cell)
        cell.pop("b_fixed")
        out.append({"name": "milp_gap_tol", "harness": "h_milp", "max_paths": 300, "spread": rng.randrange(1 << 30),
                    "params": dict(cell, gap_tol=(0.1, 0.5, 0.25)[k % 3], heuristics=(k % 2 == 0))})
    # symbolic warm start on concrete cells that branch: acceptance of the incumbent and everything after it, for ALL warm vectors
    for cell in branching_cells(random.Random(rng.randrange(1 << 30)), 24 if q else 240):
        out.append({"name": "milp_warm_sym_branching", "harness": "h_milp", "max_paths": 400, "spread": rng.randrange(1 << 30),
                    "params": dict(cell, warm="symbolic")})
        out.append({"name": "milp_warm_sym_branching", "harness": "h_milp", "max_paths": 400, "spread": rng.randrange(1 << 30),
                    "params": dict(cell, warm="symbolic", heuristics=False, solution_limit=2)})
    return out
